"""C16.K4 — built-ins decode their arguments only as far as their signature guarantees.

For every native declared in laythe_lib (`native!` / `native_with_error!` with its NativeMetaBuilder constant, read from the current
sources) the real `call` body runs from MIR on arguments that are arbitrary except for what the signature gate (C16.K1) and the
class the method is registered on (C16.K3: value classes cannot be subclassed) guarantee.  Every unchecked cast (`to_list`,
`to_enumerator`, `to_num`, ...) met on a path must already be implied by those guarantees or by a test the body made itself; the
argument slice is never indexed past the declared arity.  Natives whose bodies need library calls the executor has no model for
are listed as not encoded."""
import re
import z3
from vfw.core import obligation, get_program, summarize_paths
from mirsym.engine import Engine
from mirsym.values import *
from mirsym.tys import *
from .vmabs import VmWorld, AbsObj, kind_of, install_gc_refs
from .c01 import ValView, VALUE

RECEIVER = {   # file of the native -> object kind of the receiver its class guarantees (None: a non-object value or anything)
    'primitives/list.rs': 'List', 'primitives/map.rs': 'Map', 'primitives/string.rs': 'String', 'primitives/tuple.rs': 'Tuple',
    'primitives/iter.rs': 'Enumerator', 'primitives/channel.rs': 'Channel', 'primitives/closure.rs': 'Closure', 'primitives/fun.rs': 'Fun',
    'primitives/method.rs': 'Method', 'primitives/native_fun.rs': 'Native', 'primitives/class.rs': 'Class',
    'primitives/number.rs': '#Number', 'primitives/bool.rs': '#Bool', 'primitives/nil.rs': '#Nil',
    'primitives/native.rs': 'Native', 'primitives/error.rs': 'Instance', 'regexp/class.rs': 'Instance',
}


def native_table(P):
    out = []
    for rel, src in sorted(P.items.files.items()):
        if not rel.startswith('laythe_lib/src/'):
            continue
        body = src.split('#[cfg(test)]')[0]
        metas = {}
        for m in re.finditer(r'const\s+(\w+):\s*NativeMetaBuilder\s*=\s*NativeMetaBuilder::(method|fun)\(\s*([^,]+),\s*Arity::(\w+)\(([^)]*)\)\s*\)(.*?);', body, re.S):
            name, kind, _, form, nums, rest = m.groups()
            metas[name] = dict(is_method=(kind == 'method'), form=form, nums=[int(x) for x in re.findall(r'\d+', nums)],
                               kinds=re.findall(r'ParameterKind::(\w+)', rest))
        for m in re.finditer(r'^native(_with_error)?!\(\s*(\w+),\s*(\w+)\s*\);', body, re.M):
            meta = metas.get(m.group(3))
            line = body.count('\n', 0, m.start()) + 1
            out.append(dict(file=rel, struct=m.group(2), meta=meta, meta_name=m.group(3), line=line))
        # natives written out by hand (print, assert*, the str methods): impl LyNative for X + `CONST.build(hooks)` in impl X
        have = {o['struct'] for o in out if o['file'] == rel}
        for m in re.finditer(r'^impl LyNative for (\w+)\b', body, re.M):
            if m.group(1) in have:
                continue
            mm = re.search(r'^impl ' + m.group(1) + r' \{.*?(\w+)\.build\(', body, re.M | re.S)
            if not mm:
                continue
            line = body.count('\n', 0, m.start()) + 1
            out.append(dict(file=rel, struct=m.group(1), meta=metas.get(mm.group(1)), meta_name=mm.group(1), line=line))
    return out


def _call_fn(P, rel, struct):
    src = P.items.files[rel]
    m = re.search(r'^impl LyNative for ' + struct + r'\b', src, re.M)
    if not m:
        return None
    line = src.count('\n', 0, m.start()) + 1
    c = [f for f in P.fns if f.name.endswith('::call') and f'<impl at {rel}:{line}:' in f.name]
    return c[0] if len(c) == 1 else None


def _indexes_args(f, info):
    """is the failed bounds check of this block a check on the native's argument slice (third parameter of `call`)?"""
    try:
        from mirsym.mir import parsed_block
        bb = info[1]
        if info[0] != f.name:
            return False
        argp = f.args[2][0]
        stmts, term, _ = parsed_block(f, bb)
        txt = repr(stmts)
        return ("'" + argp + "'") in txt and ('PtrMetadata' in txt or "'len'" in txt)
    except Exception:
        return False


class NativeCastWorld:
    def __init__(self):
        self.P = P = get_program('vm')
        self.e = e = Engine(P, loop_bound=4, timeout_s=60, max_depth=40, max_paths=400)
        self.W = W = VmWorld(e, P)
        W.havoc_objects(e)
        install_gc_refs(e, exclude=('Fiber',))
        RES = P.enum_def('Result')
        le = P.enum_def('laythe_core::LyError') or P.enum_def('LyError')
        m = e.model

        def any_call(e_, a, c):
            k = len(e_.path_state['events'])
            e_.path_state['events'].append(('hook',))
            if e_.fork_bool(z3.Bool(f'hook_raises_{k}')):
                er = EnumV('LyError', le.vindex['Err'], {'Err': {0: Cell(Opaque('Instance', 'error'))}}, None, le)
                return EnumV('Result<Value, LyError>', 1, {'Err': {0: Cell(er)}}, None, RES)
            return EnumV('Result<Value, LyError>', 0, {'Ok': {0: Cell(e_.fresh(VALUE, e_.fresh_name('hook_value')))}}, None, RES)
        m(r'^(laythe_core::)?(hooks::)?(Hooks|ValueHooks)::(call|call_method|get_method)$', any_call)
        m(r'^(laythe_lib::)?(\w+::)*\w+::call_error$', lambda e_, a, c: EnumV('Result<Value, LyError>', 1, {'Err': {0: Cell(EnumV('LyError', le.vindex['Err'], {'Err': {0: Cell(Opaque('Instance', 'raised'))}}, None, le))}}, None, RES))
        m(r'^(laythe_core::)?(hooks::)?Hooks::(as_gc|as_value|as_io)$', lambda e_, a, c: Opaque('GcHooks', 'gc_hooks'))
        m(r'^(laythe_core::)?(hooks::)?(Hooks|GcHooks)::(push_root|pop_roots|scan_roots|collect_garbage)$', lambda e_, a, c: UNIT)
        m(r'^(laythe_core::)?(hooks::)?Hooks::get_class$', lambda e_, a, c: AbsObj(z3.BitVec(e_.fresh_name('class'), 64), 'ObjRef<Class>'))
        e.allow_havoc(r'^(std|alloc|core)::fmt::', r'Arguments::', r'^format$', r'^must_use$', r'^<.* as (std::string::|alloc::string::)?ToString>::to_string$',
                      r'^(std::string::|alloc::string::)?String::\w+$', r'^<(std::string::|alloc::string::)?String as .*>::\w+$')
        # leaf functions of the standard library that never see a Laythe object: summarised by an arbitrary result
        e.allow_havoc(r'^(core::)?str::<impl str>::\w+$', r'^(core::)?f64::<impl f64>::\w+$', r'^(std::path::)?Path(Buf)?::\w+$', r'^<(std::path::)?PathBuf as .*>::\w+$',
                      r'^laythe_env::', r'^thread_rng$', r'^<.*Rng.*>::\w+$', r'^<(std::str::|core::str::)?(Chars|CharIndices|Split\w*) as .*>::\w+$',
                      r'^<(std::vec::|alloc::vec::)?IntoIter as (std::iter::|core::iter::)?Iterator>::\w+$', r'^(std::fs::|fs::)\w+$',
                      r'^<dyn (std::io::)?(Write|Read) as .*>::\w+$', r'^(std::time::|core::time::)?Duration::\w+$')
        m(r'^(std::boxed::|alloc::boxed::)?Box::new$', lambda e_, a, c: a[0])

        # a list built from a slice (list!(&*items) handed to manage_obj): a new object with an identity of its own; its elements are a row of
        # any values (what the natives compute with them is C11's subject, not the sweeps')
        def m_manage_vec(e_, a, c):
            v = a[1] if len(a) > 1 else None
            if isinstance(v, Struct) and 'VecBuilder' in str(getattr(v, 'ty', '')):
                return AbsObj(z3.BitVec(e_.fresh_name('new_vector'), 64), 'List')
            return NotImplemented
        m(r'^(laythe_core::)?(hooks::)?(Hooks|GcHooks)::manage_obj$', m_manage_vec)

        def _raw_row(e_, v):
            while isinstance(v, Ref):
                v = v.cell.get(e_)
            if not hasattr(v, 'id'):
                return None
            from .vmabs import AbsArr as _AA
            row = _AA(v.id, VALUE).seq(e_)
            e_.add_constraint(z3.ULE(row.len, 4))
            return row

        def m_raw_len(e_, a, c):
            row = _raw_row(e_, a[0])
            return row.len if row is not None else NotImplemented
        m(r'^(laythe_core::)?(collections::)?(\w+::)*RawSharedVector::len$', m_raw_len)

        def m_raw_deref2(e_, a, c):
            row = _raw_row(e_, a[0])
            return SliceRef(row, bv(0, 64), row.len) if row is not None else NotImplemented
        m(r'^<(laythe_core::)?(collections::)?(\w+::)*RawSharedVector as (std::ops::|core::ops::)?Deref(Mut)?>::deref(_mut)?$', m_raw_deref2)

        # the list natives' own merge sort: the comparator runs at least once on two or more elements (two calls are unrolled)
        def m_merge_sort(e_, a, c):
            s_, f = a[0], a[1]
            while isinstance(s_, Ref):
                s_ = s_.cell.get(e_)
            while isinstance(f, Ref) and isinstance(f.cell.get(e_), Ref):
                f = f.cell.get(e_)
            ln = e_.slice_len(s_)
            if e_.fork_bool(z3.UGE(ln, 2)):
                for k in range(2):
                    x = Ref(e_.seq_cell(s_.seq, z3.simplify(s_.start + 0)))
                    y = Ref(e_.seq_cell(s_.seq, z3.simplify(s_.start + 1)))
                    e_.call_value(c.frame, f, [x, y])
            return UNIT
        m(r'^(laythe_lib::)?(\w+::)*merge_sort$', m_merge_sort)
        # instance fields: one row per instance identity, so that a test of a field and a later read of it see the same value
        from .vmabs import AbsArr, object_of

        def m_inst_index(e_, a, c):
            i = object_of(e_, a[0])
            return Ref(e_.seq_cell(AbsArr(i.id, VALUE).seq(e_), a[1]))
        m(r'^<(laythe_core::)?(object::)?(\w+::)*Instance as (std::ops::|core::ops::)?Index(Mut)?>::index(_mut)?$', m_inst_index)

        def m_inst_deref(e_, a, c):
            row = AbsArr(object_of(e_, a[0]).id, VALUE).seq(e_)
            return SliceRef(row, bv(0, 64), row.len)
        m(r'^<(laythe_core::)?(object::)?(\w+::)*Instance as (std::ops::|core::ops::)?Deref(Mut)?>::deref(_mut)?$', m_inst_deref)
        self.okind = P.enum_def('laythe_core::object::ObjectKind')

    def constrain(self, e, v, kind):
        vw = ValView(e, self.P, v)
        ok = self.okind.vindex
        if kind == 'Object':
            e.add_constraint(z3.Not(vw.is_undef))
        elif kind == 'Number':
            e.add_constraint(vw.is_num)
        elif kind == 'Bool':
            e.add_constraint(vw.is_bool)
        elif kind == 'String':
            e.add_constraint(vw.is_kind(self.P, 'String'))
        elif kind == 'Callable':
            e.add_constraint(z3.Or(*[vw.is_kind(self.P, k) for k in ('Closure', 'Fun', 'Native', 'Method')]))
        elif kind == 'Iter':
            e.add_constraint(vw.is_kind(self.P, 'Enumerator'))
        elif kind.startswith('#'):
            e.add_constraint({'#Number': vw.is_num, '#Bool': vw.is_bool, '#Nil': vw.is_nil}[kind])
        elif kind in ok:
            e.add_constraint(vw.is_kind(self.P, kind))
        else:
            raise Unsupported('parameter kind ' + kind)
        # boxes are never operands
        e.add_constraint(z3.Not(vw.is_kind(self.P, 'LyBox')))


def _arg_shapes(meta, extra):
    """[list of parameter kinds for the explicit arguments] for each admissible argument count (bounded)"""
    form, nums, kinds = meta['form'], meta['nums'], meta['kinds']
    if form == 'Fixed':
        return [kinds[:nums[0]] + ['Object'] * max(0, nums[0] - len(kinds))]
    if form == 'Variadic':
        fixed = kinds[:nums[0]]
        var = kinds[nums[0]] if len(kinds) > nums[0] else 'Object'
        return [fixed + [var] * k for k in range(extra + 1)]
    lo, hi = nums[0], nums[1]
    return [(kinds + ['Object'] * hi)[:k] for k in range(lo, hi + 1)]


SHARDS = 10


def _k4(res, tier, shard):
    NW = NativeCastWorld()
    P = NW.P
    table = native_table(P)
    extra = 2
    decided, outside, npaths = [], [], 0
    res.bounds = {'variadic arguments': f'0..{extra}', 'paths per native': '<= 400'}
    res.assumptions = ['the signature gate admits exactly the declared kinds (C16.K1); method receivers have the kind of the class the method is registered on (C16.K3)',
                       'callbacks and hooks are summarised by arbitrary results']
    import os
    only = os.environ.get('VERIF_NATIVE')
    for n_ent, ent in enumerate(table):
        if n_ent % SHARDS != shard:
            continue
        if only and only not in ent['struct']:
            continue
        label = f"{ent['struct']}"
        if ent['meta'] is None:
            outside.append(f"{label}: signature constant {ent['meta_name']} not found in {ent['file']}")
            continue
        f = _call_fn(P, ent['file'], ent['struct'])
        if f is None:
            outside.append(f'{label}: impl LyNative not located')
            continue
        recv = None
        for k, v in RECEIVER.items():
            if ent['file'].endswith(k):
                recv = v
        meta = ent['meta']
        W = NativeCastWorld()
        e = W.e
        shapes = _arg_shapes(meta, extra)

        def path(e, meta=meta, recv=recv, shapes=shapes, ent=ent, f=f):
            st = W.W.fresh_state(e)
            e.path_state['casts'] = []
            si = e.concretize(z3.BitVec('shape', 64), list(range(len(shapes)))) if len(shapes) > 1 else 0
            if len(shapes) > 1:
                pass
            kinds = list(shapes[si])
            vals = []
            if meta['is_method']:
                v = e.fresh(VALUE, 'receiver')
                W.constrain(e, v, recv or 'Object')
                vals.append(v)
            for j, k in enumerate(kinds):
                v = e.fresh(VALUE, f'arg{j}')
                W.constrain(e, v, k)
                vals.append(v)
            args = ConcSeq('Value', [Cell(v) for v in vals])
            sd = P.items.structs.get(ent['struct'], [])
            sd = [d for d in sd if d.file == ent['file']]
            me = Struct(ent['struct'], None, NameBacking('native_self')) if sd and sd[0].fields else Struct(ent['struct'], {}, None)
            e.call(f, [Ref(Cell(me)), Ref(Cell(Opaque('Hooks', 'hooks'))), SliceRef(args, bv(0, 64), bv(len(vals), 64))])
            for name, oid, established, where in e.path_state['casts']:
                e.check(established, f'{ent["struct"]}: the cast {name} is justified by the signature, the receiver class or a test made by the native',
                        {'cast': name, 'in': str(where)[-80:], 'arguments': kinds})
            return {'native': ent['struct'], 'casts': len(e.path_state['casts'])}
        if len(shapes) > 1:
            def path2(e, path=path):
                sv = z3.BitVec('shape', 64)
                e.add_constraint(z3.ULT(sv, len(shapes)))
                return path(e)
            runner = path2
        else:
            runner = path
        try:
            results = e.explore(runner)
        except Unsupported as ex:
            outside.append(f'{label}: {str(ex)[:140]}')
            continue
        unsup = [r for r in results if r.kind in ('unsupported', 'budget')]
        bad = []
        for r in results:
            if r.kind == 'panic':
                s = str(r.info)
                if 'Expected' in s or 'value.rs' in s:
                    bad.append(r)          # to_num / to_obj / to_bool applied to a value of another kind
                elif 'index out of bounds' in s and _indexes_args(f, r.info):
                    bad.append(r)          # args[k] beyond the admitted argument count
            elif r.kind == 'ub':
                bad.append(r)
        for r in bad:
            res.fail(f'C16.K4:{label}:{r.kind}', f'{label}: argument decoding ends in {r.kind}: {str(r.info)[:200]}', {'path': str(r.info), 'signature': meta})
        for r in results:
            for lab, okc, info in r.checks:
                res.checks += 1
                if not okc:
                    res.fail(f'C16.K4:{lab}', f'{lab} fails', info)
        res.absorb(e)
        res.paths += len(results)
        if any(r.checks for r in results) or any(r.kind == 'ok' for r in results):
            res.nontrivial += 1
        if unsup and not any(r.kind == 'ok' for r in results):
            outside.append(f'{label}: {str(unsup[0].info)[:140]}')
        else:
            decided.append(label + (' (some paths not encoded)' if unsup else ''))
    res.bounds['natives decided'] = len(decided)
    res.bounds['natives'] = decided
    res.outside = (res.outside or []) + ['not encoded: ' + x for x in outside]


for _sh in range(SHARDS):
    def _mk(sh=_sh):
        @obligation(f'C16.K4.native_argument_casts.{sh}', 'C16', programs=('vm',))
        def ob(res, tier):
            _k4(res, tier, sh)
        ob.__doc__ = ("""every native of the standard library (shard %d of %d, by position in the source), run from MIR on arguments constrained only by
        its declared signature and the kind of receiver its class guarantees: each unchecked cast of an argument is justified, to_num /
        to_obj / to_bool are applied only to values of that kind, the argument slice is indexed within the admitted count""" % (sh, SHARDS))
        from vfw.core import REGISTRY
        for o in REGISTRY.get('C16', []):
            if o.id == f'C16.K4.native_argument_casts.{sh}':
                o.doc = ob.__doc__
    _mk()
