"""C07.K3 / C16 — handing a parked fiber back to the scheduler.

There is no central wait queue: a parked fiber is named by the waiter it left in the lists of a channel, by the `parent` link of a
child that completes, and by whoever walks the channels it used.  The same fiber can therefore be named several times — by a waiter
that stayed behind in a list after the fiber was resumed by another route, by two children completing one after the other, or by the
running fiber itself walking a list that still holds its own waiter.  `Vm::queue_blocked_fiber` is the one place where a named fiber
is made runnable, and `Vm::context_switch` / `Fiber::activate` is the one place where a queued fiber starts to run.

The run-queue invariant (what `activate` demands of every fiber it is handed):
    Q1 the fibers in the run queue are pairwise distinct,
    Q2 none of them is the running fiber,
    Q3 each of them is Pending.
`queue_blocked_fiber` runs from MIR on any run queue satisfying Q1-Q3 and any waiter — naming a parked fiber, a fiber already in
the queue, or the running fiber — and must keep Q1-Q3 without a host panic; then `context_switch` on the head of such a queue must
not panic.  The second obligation states what a resumed fiber leaves behind: its waiter is in no list of any channel it used, so a
later operation on that channel cannot resume it for a reason it no longer waits for (a synchronous sender resumed through a waiter
it left on another channel would proceed before its value was taken)."""
import re
import z3
from vfw.core import obligation, get_program, summarize_paths
from mirsym.engine import Engine
from mirsym.values import *
from mirsym.tys import *
from .vmabs import AbsObj, AbsGc, AbsUVec, install_gc_refs

QUEUED_TWICE_SRC = ('let ch = chan(1);\nlet s = chan();\nfn child(c) { c <- 1; }\nfn filler(c) { c <- 2; }\nlaunch child(ch);\nlaunch filler(ch);\n'
                    'print(<- ch);\ns <- "x";\n')
SELF_WAKE_SRC = ('fn c1(a) { a <- 1; }\nfn c2(a) { a <- 2; }\nlet a = chan(4);\nlet b = chan();\nlaunch c1(a);\nlaunch c2(a);\nprint(<- a);\nb <- "x";\n'
                 'print("proceeded past a synchronous send nobody received");\n')
STALE_SRC = ('let a = chan(1);\nlet b = chan();\nfn c1(a) { a <- 1; }\nfn late(a) { a <- 2; a <- 3; }\nlaunch c1(a);\nprint(<- a);\nlaunch late(a);\nb <- "x";\n'
             'print("proceeded past a synchronous send nobody received");\n')
PANIC_RE = r'panicked at|Internal Error|proceeded past a synchronous send'
REPLAY_TWICE = dict(kind='lay', source=QUEUED_TWICE_SRC, bad_re=PANIC_RE, bad_exit=[101],
                    note='main is queued by the completing child (parent link) and again by the waiter it left in the channel; the second activation finds it Blocked')
REPLAY_SELF = dict(kind='lay', source=SELF_WAKE_SRC, bad_re=PANIC_RE, bad_exit=[101],
                   note='the running fiber finds the waiter it left in channel a while it looks for someone to resume')
REPLAY_STALE = dict(kind='lay', source=STALE_SRC, bad_re=PANIC_RE, bad_exit=[101],
                    alternatives=[REPLAY_SELF, REPLAY_TWICE],
                    note='a waiter left behind on channel a resumes main while it is blocked in a synchronous send on b')


class PyDeque:
    """VecDeque<T> with a concrete list of element values (identities stay the python objects that were put in)"""
    rust_ty = 'VecDeque'

    def __init__(self, items=None):
        self.items = list(items or [])

    def copy_value(self, eng):
        return self


def _deep(e, v):
    while isinstance(v, Ref):
        v = v.cell.get(e)
    return v


def _gc(e, v):
    """the managed identity a value (or a reference into its allocation) stands for"""
    while isinstance(v, Ref):
        o = e.memo.get(('cellobj', id(v.cell)))
        if o is not None:
            return o
        v = v.cell.get(e)
    return v


def _install_deque(e):
    VD = r'^(std::collections::)?(vec_deque::)?VecDeque::'

    def on(fn):
        def w(e_, a, c):
            d = _deep(e_, a[0])
            if not isinstance(d, PyDeque):
                return NotImplemented
            return fn(e_, d, a, c)
        return w

    def same(e_, x, y):
        x, y = _deep(e_, x), _deep(e_, y)
        return z3.simplify(x.id == y.id)
    e.model(VD + r'push_back$', on(lambda e_, d, a, c: (d.items.append(_deep(e_, a[1])), UNIT)[1]))
    e.model(VD + r'len$', on(lambda e_, d, a, c: bv(len(d.items), 64)))
    e.model(VD + r'is_empty$', on(lambda e_, d, a, c: len(d.items) == 0))

    def contains(e_, d, a, c):
        for it in d.items:
            if e_.fork_bool(same(e_, it, a[1])):
                return True
        return False
    e.model(VD + r'contains$', on(contains))

    def pop_front(e_, d, a, c):
        oty = norm_ty(c.dest_ty) if c.dest_ty else 'Option'
        if not d.items:
            return e_.mk_option(e_, oty)
        return e_.mk_option(e_, oty, d.items.pop(0))
    e.model(VD + r'pop_front$', on(pop_front))

    def retain(e_, d, a, c):
        keep = []
        for it in list(d.items):
            r = e_.call_value(c.frame, a[1], [Ref(Cell(it))])
            if e_.fork_bool(to_z3_bool(r)):
                keep.append(it)
        d.items[:] = keep
        return UNIT
    e.model(VD + r'(retain|retain_mut)$', on(retain))

    def iter_(e_, d, a, c):
        return SliceIter(SliceRef(ConcSeq('?', [Cell(x) for x in d.items]), bv(0, 64), bv(len(d.items), 64)))
    e.model(VD + r'(iter|iter_mut)$', on(iter_))


class _World:
    def __init__(self, timeout=180):
        self.P = P = get_program('vm')
        self.e = e = Engine(P, loop_bound=6, timeout_s=timeout, max_depth=60)
        from .vmabs import VmWorld
        VmWorld(e, P)          # models of the managed containers and object references
        install_gc_refs(e)
        _install_deque(e)
        self.fib_sd = P.struct_def('fiber::Fiber')
        self.ix = {n: i for i, (n, _) in enumerate(self.fib_sd.fields)}
        self.st_def = P.enum_def('fiber::FiberState')
        self.vm_sd = P.struct_def('vm::Vm')
        self.vix = {n: i for i, (n, _) in enumerate(self.vm_sd.fields)}

        def get_waiter(e_, a, c):
            w = _gc(e_, a[0])
            oty = norm_ty(c.dest_ty) if c.dest_ty else 'Option'
            f = e_.path_state['waiter_of'].get(w.id.sexpr())
            if f is None:
                return e_.mk_option(e_, oty)
            return e_.mk_option(e_, oty, Ref(Cell(f)))
        e.model(r'^(laythe_core::)?(object::)?(\w+::)*ChannelWaiter::get_waiter(_mut)?$', get_waiter)

        def set_runnable(e_, a, c):
            w = _gc(e_, a[0])
            e_.path_state['runnable'][w.id.sexpr()] = a[1]
            return UNIT
        e.model(r'^(laythe_core::)?(object::)?(\w+::)*ChannelWaiter::set_runnable$', set_runnable)

        def is_runnable(e_, a, c):
            w = _gc(e_, a[0])
            return e_.path_state['runnable'].get(w.id.sexpr(), True)
        e.model(r'^(laythe_core::)?(object::)?(\w+::)*ChannelWaiter::is_runnable$', is_runnable)

    def state(self, name):
        return EnumV('fiber::FiberState', self.st_def.vindex[name], None, None, self.st_def)

    def fiber(self, e, name, state, channels=()):
        """a fiber allocation with its waiter; returns (Ref<Fiber> identity, the struct, waiter identity)"""
        g = AbsGc(z3.BitVec(name, 64), 'fiber::Fiber')
        w = AbsGc(z3.BitVec(name + '_waiter', 64), 'laythe_core::object::ChannelWaiter')
        s = e.fresh('fiber::Fiber', name + '_data')
        s.f[self.ix['state']] = Cell(state if not isinstance(state, str) else self.state(state))
        s.f[self.ix['waiter']] = Cell(w)
        ety = ty_args(norm_ty(self.fib_sd.fields[self.ix['channels']][1]))[0]
        s.f[self.ix['channels']] = Cell(AbsUVec(ConcSeq(ety, [Cell(ch) for ch in channels]), bv(len(channels), 64)))
        c = Cell(s)
        e.memo[('gcdata', g.id.sexpr(), norm_ty('fiber::Fiber'))] = c
        e.memo[('cellobj', id(c))] = g
        e.path_state.setdefault('waiter_of', {})[w.id.sexpr()] = g
        e.path_state.setdefault('runnable', {})
        e.path_state.setdefault('fibers', {})[g.id.sexpr()] = s
        return g, s, w

    def state_name(self, e, s):
        st = s.f[self.ix['state']].get(e)
        if isinstance(st.tag, int):
            return self.st_def.variants[st.tag][0] if isinstance(self.st_def.variants[st.tag], (tuple, list)) else str(self.st_def.variants[st.tag])
        return None

    def is_state(self, e, s, name):
        st = s.f[self.ix['state']].get(e)
        if isinstance(st.tag, int):
            return st.tag == self.st_def.vindex[name]
        return e.is_valid(st.tag == self.st_def.vindex[name])

    def vm(self, e, current, queue):
        vm = Struct('vm::Vm', None, NameBacking('vm'))
        vm.f[self.vix['fiber']] = Cell(current)
        vm.f[self.vix['fiber_queue']] = Cell(queue)
        return vm

    def check_queue(self, e, q, current, where):
        ids = [x.id for x in q.items]
        distinct = all(e.is_valid(a != b) for i, a in enumerate(ids) for b in ids[i + 1:])
        e.check(distinct, f'{where}: the fibers in the run queue are pairwise distinct (a fiber is queued at most once)', {'queue length': len(ids)})
        e.check(all(e.is_valid(a != current.id) for a in ids), f'{where}: the running fiber is not in the run queue')
        pend = all(self.is_state(e, e.path_state['fibers'][x.id.sexpr()], 'Pending') for x in q.items)
        e.check(pend, f'{where}: every fiber in the run queue is Pending (what Fiber::activate demands)')


def _distinct(e, ids):
    for i, a in enumerate(ids):
        for b in ids[i + 1:]:
            e.add_constraint(a != b)


@obligation('C07.K3.wakeup_keeps_run_queue', 'C07', programs=('vm',), also=('C16',))
def k3_wakeup(res, tier):
    """Vm::queue_blocked_fiber from MIR on any run queue (0..2 fibers) satisfying the run-queue invariant and a waiter naming a parked
    fiber (Blocked or Pending), a fiber already in the queue, or the running fiber itself: no host panic and the invariant (distinct,
    not the running fiber, all Pending) holds afterwards; then Vm::context_switch to the head of the queue does not panic in
    Fiber::activate"""
    W = _World()
    e, P = W.e, W.P
    f = P.lookup('vm::basic::<impl vm::Vm>::queue_blocked_fiber') or P.lookup('vm::Vm::queue_blocked_fiber')
    fact = P.lookup('fiber::Fiber::activate')
    if f is None or fact is None:
        res.inconclusive('queue_blocked_fiber / activate not located')
        return
    res.bounds = {'fibers in the run queue': '0..2', 'waiter names': 'parked fiber (Blocked | Pending) / queued fiber 0 / queued fiber 1 / the running fiber',
                  'channels used by the resumed fiber': 'none here (C07.K3.resumed_fiber_leaves_lists)'}
    res.assumptions = ['a waiter found in a channel list or through a parent link may name ANY fiber that is not complete (lists are not '
                       'purged when a fiber is resumed by another route; replayed natively: fiber queued twice, running fiber finds itself)',
                       'a fiber that sleeps or blocks is not in the run queue at that moment (it was running)']

    def path(e):
        cur, cur_s, cur_w = W.fiber(e, 'running', 'Running')
        nq = z3.BitVec('queue_len', 64)
        e.add_constraint(z3.ULE(nq, 2))
        n = e.concretize(nq, [0, 1, 2])
        queued = [W.fiber(e, f'queued{i}', 'Pending') for i in range(n)]
        case_v = z3.BitVec('named', 64)
        e.add_constraint(z3.ULE(case_v, 1 + n))
        case = e.concretize(case_v, list(range(2 + n)))
        q = PyDeque([g for g, _, _ in queued])
        ids = [cur.id] + [g.id for g, _, _ in queued]
        if case == 0:
            blocked = e.fork_bool(z3.Bool('parked_blocked'))
            tgt, tgt_s, tgt_w = W.fiber(e, 'parked', 'Blocked' if blocked else 'Pending')
            ids.append(tgt.id)
            what = 'a parked fiber (' + ('Blocked' if blocked else 'Pending') + ')'
        elif case == 1:
            tgt, tgt_s, tgt_w = cur, cur_s, cur_w
            what = 'the running fiber'
        else:
            tgt, tgt_s, tgt_w = queued[case - 2]
            what = f'queued fiber {case - 2}'
        _distinct(e, ids)
        vm = W.vm(e, cur, q)
        e.call(f, [Ref(Cell(vm)), tgt_w])
        W.check_queue(e, q, cur, 'queue_blocked_fiber')
        if case == 0:
            e.check(any(e.is_valid(x.id == tgt.id) for x in q.items), 'queue_blocked_fiber: a parked fiber named by a waiter is put on the run queue')
        e.check(W.is_state(e, cur_s, 'Running'), 'queue_blocked_fiber: the running fiber stays Running')
        # the head of the queue is the next fiber to run
        if q.items:
            head = q.items[0]
            e.call(fact, [Ref(e.memo[('gcdata', head.id.sexpr(), norm_ty('fiber::Fiber'))])])
        return {'fn': 'queue_blocked_fiber', 'queue': n, 'waiter names': what}
    results = e.explore(path)
    seen = set()
    for r in results:
        named = None
        for lab, ok, info in list(r.checks):
            if not ok and ('pairwise distinct' in lab or 'is Pending' in lab) and 'twice' not in seen:
                seen.add('twice')
                res.fail('C07.K3:a fiber already on the run queue is queued again',
                         'queue_blocked_fiber pushes the fiber a waiter names without asking whether it is queued already; the second '
                         'activation finds it Blocked, Running or Complete: host panic in Fiber::activate', info, replay=REPLAY_TWICE)
            if not ok:
                r.checks.remove((lab, ok, info))
        if r.kind == 'panic' and 'self' not in seen:
            seen.add('self')
            res.fail('C07.K3:the running fiber is handed to queue_blocked_fiber',
                     'queue_blocked_fiber calls Fiber::unblock on whatever fiber the waiter names; for the running fiber (its own waiter '
                     f'left in a list) the state assertion fails: host panic ({str(r.info)[:120]})', {'path': str(r.info)}, replay=REPLAY_SELF)
        elif r.kind in ('oob', 'unreachable', 'ub', 'diverge', 'depth'):
            res.fail(f'C07.K3:queue_blocked_fiber:{r.kind}', f'path ends in {r.kind}: {str(r.info)[:200]}', {'path': str(r.info)})
    summarize_paths(res, e, results, lambda r: r.info if isinstance(r.info, dict) else None, key_prefix='C07.K3:wakeup:', unwind_ok=False)


@obligation('C07.K3.resumed_fiber_leaves_lists', 'C07', programs=('vm',), also=('C16',))
def k3_leaves_lists(res, tier):
    """the one wake-up route that does not take the resumed fiber's waiter out of a list: the parent link.  Fiber::complete from MIR
    for a child whose parent sleeps on a channel (Pending, its waiter at arbitrary positions of the send / receive lists, 0..2 entries
    each, of the 0..2 channels it used; views may share a queue): when complete hands the parent's waiter to the scheduler, no list of
    a channel the parent used holds that waiter any more and the other entries are kept in order.  Every other route pops the entry
    it returns (find_runnable_waiter, C07.K1), so a fiber that is not parked is in no waiter list — no later channel operation
    resumes it for a reason it no longer waits for (a synchronous sender would proceed before its value was taken)"""
    W = _World()
    e, P = W.e, W.P
    f = P.lookup('fiber::Fiber::complete')
    src = P.items.files['laythe_vm/src/vm/ops.rs']
    for op, call in (('op_send', '.send('), ('op_receive', '.receive(')):
        mm = re.search(r'fn ' + op + r'\b.*?\n  \}\}', src, re.S)
        body = mm.group(0) if mm else ''
        if not (0 <= body.find('add_used_channel') < body.find(call)):
            res.fail(f'C07.K3:{op} parks on a channel it did not record', f'{op}: the channel is recorded with add_used_channel before the fiber can park in its lists')
    res.checks += 2
    cq_sd = P.struct_def('laythe_core::object::channel::channel_queue::ChannelQueue') or P.struct_def('laythe_core::object::ChannelQueue')
    ch_sd = P.struct_def('laythe_core::object::Channel') or P.struct_def('laythe_core::object::channel::Channel')
    if cq_sd is None or ch_sd is None:
        res.inconclusive('Channel / ChannelQueue definitions not located')
        return
    cqi = {n: i for i, (n, _) in enumerate(cq_sd.fields)}
    chi = {n: i for i, (n, _) in enumerate(ch_sd.fields)}
    nlist = 1 if tier == 'quick' else 2
    e.max_paths = 40000
    e.timeout_s = 900
    res.bounds = {'channels used by the resumed fiber': '0..2 (two views may share one queue)', 'entries per waiter list': f'0..{nlist}, each the fiber\'s own waiter or another one',
                  'parent': 'Pending (asleep on a channel) or Blocked (not resumed through the parent link unless awaited)', 'completing child': 'used no channel, not awaited'}
    res.assumptions = ['every channel whose lists can hold the waiter is in the fiber\'s channel list (checked on the source: op_send / op_receive call add_used_channel before the channel operation)']

    def chan_deref(e_, a, c):
        o = a[0]
        while isinstance(o, Ref):
            o = o.cell.get(e_)
        cell = e_.path_state.get('chan_data', {}).get(o.id.sexpr()) if hasattr(o, 'id') else None
        return Ref(cell) if cell is not None else NotImplemented
    e.model(r'^<(laythe_core::)?(reference::)?(obj_reference::)?ObjRef as (std::ops::|core::ops::)?Deref(Mut)?>::deref(_mut)?$', chan_deref)

    def path(e):
        cur, cur_s, cur_w = W.fiber(e, 'running', 'Running')
        nchan_v = z3.BitVec('channels_used', 64)
        e.add_constraint(z3.ULE(nchan_v, 2))
        nchan = e.concretize(nchan_v, [0, 1, 2])
        other_w = [AbsGc(z3.BitVec(f'other_waiter{k}', 64), 'laythe_core::object::ChannelWaiter') for k in range(2)]
        tw = z3.BitVec('parked_waiter', 64)
        chans, lists = [], []
        e.path_state['chan_data'] = {}
        shared = nchan == 2 and e.fork_bool(z3.Bool('views_share_one_queue'))
        queues = []
        for k in range(nchan):
            ch = AbsObj(z3.BitVec(f'channel{k}', 64), 'ObjRef<Channel>')
            if k == 1 and shared:
                qg, qs = queues[0]
            else:
                qg = AbsGc(z3.BitVec(f'queue{k}', 64), cq_sd.name)
                qs = Struct(cq_sd.name, None, NameBacking(f'queue{k}_data'))
                for side in ('send_waiters', 'receive_waiters'):
                    ln_v = z3.BitVec(f'{side}{k}_len', 64)
                    e.add_constraint(z3.ULE(ln_v, nlist))
                    ln = e.concretize(ln_v, list(range(nlist + 1)))
                    items = []
                    for j in range(ln):
                        mine = e.fork_bool(z3.Bool(f'{side}{k}_{j}_is_parked_fiber'))
                        items.append(('mine', None) if mine else ('other', other_w[j % 2]))
                    lists.append((k, side, items))
                    qs.f[cqi[side]] = Cell(None)     # filled once the parked fiber's waiter exists
                c = Cell(qs)
                e.memo[('gcdata', qg.id.sexpr(), norm_ty(cq_sd.name))] = c
                e.memo[('cellobj', id(c))] = qg
            queues.append((qg, qs))
            cs = Struct(ch_sd.name, None, NameBacking(f'channel{k}_data'))
            cs.f[chi['queue']] = Cell(qg)
            e.path_state['chan_data'][ch.id.sexpr()] = Cell(cs)
            chans.append(ch)
        blocked = e.fork_bool(z3.Bool('parked_blocked'))
        tgt, tgt_s, tgt_w = W.fiber(e, 'parked', 'Blocked' if blocked else 'Pending', channels=chans)
        _distinct(e, [cur.id, tgt.id])
        _distinct(e, [cur_w.id, tgt_w.id] + [w.id for w in other_w])
        if nchan == 2 and not shared:
            _distinct(e, [queues[0][0].id, queues[1][0].id])
        if nchan == 2:
            _distinct(e, [c.id for c in chans])
        deques = []
        for k, side, items in lists:
            d = PyDeque([tgt_w if kind == 'mine' else w for kind, w in items])
            queues[k][1].f[cqi[side]] = Cell(d)
            deques.append((k, side, d, [w for kind, w in items if kind == 'other']))
        # the completing child: running, its parent is the parked fiber
        child_s = cur_s
        oty = W.fib_sd.fields[W.ix['parent']][1]
        child_s.f[W.ix['parent']] = Cell(e.mk_option(e, norm_ty(oty), tgt))
        if 'awaited' in W.ix:
            child_s.f[W.ix['awaited']] = Cell(False)
        r = e.call(f, [Ref(e.memo[('gcdata', cur.id.sexpr(), norm_ty('fiber::Fiber'))])])
        handed = False
        if isinstance(r, EnumV) and ((r.tag == 1) if isinstance(r.tag, int) else e.fork_bool(r.tag == 1)):
            w = r.field(e, 'Some', 0, None).get(e)
            handed = isinstance(w, AbsGc) and e.is_valid(w.id == tgt_w.id)
        e.check(handed == (not blocked), 'complete: a sleeping parent is handed to the scheduler, a blocked one is left to the operation it waits for')
        left = [(k, side) for k, side, d, _ in deques if any(not e.is_valid(x.id != tgt_w.id) for x in d.items)]
        if handed:
            e.check(not left, 'complete: a parent resumed through the parent link is in no waiter list of a channel it used',
                    {'still listed in': [f'channel{k}.{side}' for k, side in left]})
        kept = all(len([x for x in d.items if e.is_valid(x.id != tgt_w.id)]) == len(others)
                   and all(e.is_valid(x.id == y.id) for x, y in zip([x for x in d.items if e.is_valid(x.id != tgt_w.id)], others))
                   for k, side, d, others in deques)
        e.check(kept, 'complete: the waiters of other fibers stay in their lists, in order')
        return {'fn': 'complete', 'parent resumed': handed, 'channels': nchan, 'lists': [(k, side, len(d.items)) for k, side, d, _ in deques]}
    results = e.explore(path)
    seen = set()
    for r in results:
        for lab, ok, info in list(r.checks):
            if not ok and 'in no waiter list' in lab:
                if 'stale' not in seen:
                    seen.add('stale')
                    res.fail('C07.K3:a resumed fiber leaves its waiter in the channel lists',
                             'a fiber resumed by another route (parent link, another channel) stays listed as a waiter of the channel it parked on; '
                             'a later operation on that channel resumes it again — while it is blocked in a synchronous send elsewhere it proceeds before its value was taken, '
                             'or it is queued twice / finds itself (host panic)', info, replay=REPLAY_STALE)
                r.checks.remove((lab, ok, info))
        if r.kind in ('panic', 'oob', 'unreachable', 'ub', 'diverge', 'depth'):
            res.fail(f'C07.K3:leaves_lists:{r.kind}', f'path ends in {r.kind}: {str(r.info)[:200]}', {'path': str(r.info)})
    summarize_paths(res, e, results, lambda r: r.info if isinstance(r.info, dict) else None, key_prefix='C07.K3:lists:', unwind_ok=False)
