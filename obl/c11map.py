"""C11.K5 / C16 — the map iterator reads only live storage.

A hash table hands out iterators that point into its bucket allocation; any insert may move the table to a new allocation and any
removal rewrites control bytes the iterator has cached.  Rust's borrow rules forbid touching the table while such an iterator
lives; `ObjRef::data_static` launders the lifetime, so the rule has to be kept by construction.  The model gives every map a table
generation that changes whenever the program mutates the map; creating a table iterator records the generation, advancing it
requires the generation to be unchanged.  The history between two calls of a Laythe iterator is arbitrary (the iterator is a first
class value and `m[k] = v`, `m.insert`, `m.remove` are ordinary natives), so the generation is havocked between `new` and `next`."""
import z3
from vfw.core import obligation, get_program, summarize_paths
from mirsym.values import *
from mirsym.tys import *
from .vmabs import AbsObj, kind_of, object_of
from .c16natives import NativeCastWorld
from .c01 import VALUE

BV64 = z3.BitVecSort(64)
table_gen = z3.Function('table_generation', BV64, BV64, BV64)        # map identity, epoch -> generation of its bucket allocation

F31_SRC = ('let m = {"a": 1, "b": 2};\nlet it = m.iter();\nit.next();\nlet i = 0;\nwhile i < 1000 { m[i] = i; i = i + 1; }\n'
           'it.next();\nprint("done");\n')
F31_REPLAY = dict(kind='lay', source=F31_SRC, valgrind=True, note='the table is reallocated by the inserts; the iterator still points into the freed buckets')


class _TableIter:
    """hashbrown::hash_map::Iter over the table of one map, bound to the generation it was created at"""
    rust_ty = 'hash_map::Iter'

    def __init__(self, mid, gen):
        self.mid, self.gen, self.n = mid, gen, 0

    def copy_value(self, eng):
        return self

    def advance(self, e):
        cur = table_gen(self.mid, bv(e.path_state['epoch'], 64))
        e.check(self.gen == cur, 'the table iterator is advanced only while the table is the one it was created from (no insert / remove since)',
                {'created_at_generation': str(self.gen), 'epoch': e.path_state['epoch']})
        k = self.n
        self.n += 1
        if k < 3 and e.fork_bool(z3.Bool(f'table_has_more_{k}')):
            return (e.fresh(VALUE, e.fresh_name('key')), e.fresh(VALUE, e.fresh_name('val')))
        return None

    def iter_next(self, e, fr):
        kv = self.advance(e)
        if kv is None:
            return None
        return Struct('()', [Cell(Ref(Cell(kv[0]))), Cell(Ref(Cell(kv[1])))])


class _MapData:
    """the Map behind an ObjRef<Map>"""
    rust_ty = 'Map'

    def __init__(self, mid):
        self.mid = mid

    def copy_value(self, eng):
        return self


def _world():
    W = NativeCastWorld()
    e, P = W.e, W.P
    m = e.model

    def deep(e_, v):
        while isinstance(v, Ref):
            v = v.cell.get(e_)
        return v

    def m_data(e_, a, c):
        o = deep(e_, a[0])
        if isinstance(o, AbsObj) and 'Map' in o.ty:
            return Ref(Cell(_MapData(o.id)))
        return NotImplemented
    m(r'^(laythe_core::)?(reference::)?(obj_reference::)?ObjRef::data_static$', m_data)
    m(r'^<(laythe_core::)?(reference::)?(obj_reference::)?ObjRef as (std::ops::|core::ops::)?Deref(Mut)?>::deref(_mut)?$',
      lambda e_, a, c: m_data(e_, a, c))

    def m_iter(e_, a, c):
        d = deep(e_, a[0])
        if not isinstance(d, _MapData):
            return NotImplemented
        return _TableIter(d.mid, table_gen(d.mid, bv(e_.path_state['epoch'], 64)))
    m(r'^(laythe_core::)?(object::)?(map::)?Map::(iter|iter_mut)$', m_iter)

    def m_len(e_, a, c):
        d = deep(e_, a[0])
        if not isinstance(d, _MapData):
            return NotImplemented
        n = z3.BitVec(e_.fresh_name('map_len'), 64)
        e_.add_constraint(z3.ULT(n, 1 << 32))
        return n
    m(r'^(laythe_core::)?(object::)?(map::)?Map::len$', m_len)

    def m_next(e_, a, c):
        it = deep(e_, a[0])
        if not isinstance(it, _TableIter):
            return NotImplemented
        oty = norm_ty(c.dest_ty) if c.dest_ty else 'Option'
        kv = it.iter_next(e_, c.frame)
        return e_.mk_option(e_, oty) if kv is None else e_.mk_option(e_, oty, kv)
    m(r'^<(hashbrown::)?(hash_map::|map::)?Iter as (std::iter::|core::iter::)?Iterator>::next$', m_next)
    return W


@obligation('C11.K5.map_iterator_storage', 'C11', programs=('vm',), also=('C16',))
def k5_map_iterator(res, tier):
    """MapIterator::new, then ANY history of inserts into / removals from the same map, then MapIterator::next (twice): every advance
    of a hash-table iterator happens on the table generation the iterator was created from, i.e. the Laythe iterator never holds a
    raw table iterator across a point where the program can mutate the map"""
    W = _world()
    e, P = W.e, W.P
    src = P.items.files['laythe_lib/src/global/primitives/map.rs']
    import re
    mm = re.search(r'^impl MapIterator \{', src, re.M)
    line = src.count('\n', 0, mm.start()) + 1
    fnew = [f for f in P.fns if f.name.endswith('::new') and f'<impl at laythe_lib/src/global/primitives/map.rs:{line}:' in f.name]
    mm = re.search(r'^impl Enumerate for MapIterator\b', src, re.M)
    line = src.count('\n', 0, mm.start()) + 1
    fnext = [f for f in P.fns if f.name.endswith('::next') and f'<impl at laythe_lib/src/global/primitives/map.rs:{line}:' in f.name]
    if len(fnew) != 1 or len(fnext) != 1:
        res.inconclusive('MapIterator::new / next not located')
        return
    res.bounds = {'entries in the map': '0..3 (the table iterator yields at most 3)', 'calls of next': 2, 'mutations between calls': 'any (generation havocked)'}
    res.assumptions = ['MapSet / MapInsert / MapRemove call Map::insert / remove, which may reallocate or rewrite the table (hashbrown contract)',
                       'the map object itself stays alive (the iterator traces it: C05.K1)']

    def path(e):
        W.W.fresh_state(e)
        e.path_state['casts'] = []
        e.path_state['epoch'] = 0
        mp = AbsObj(z3.BitVec('the_map', 64), 'ObjRef<Map>')
        e.add_constraint(kind_of(mp.id) == P.enum_def('laythe_core::object::ObjectKind').vindex['Map'])
        it = e.call(fnew[0], [mp])
        cell = Cell(it)
        hooks = Ref(Cell(Opaque('Hooks', 'hooks')))
        for k in range(2):
            e.path_state['epoch'] += 1          # the program ran: the table may have been mutated any number of times
            e.call(fnext[0], [Ref(cell), hooks])
        return {'fn': 'MapIterator', 'advances': sum(1 for lab, ok, _ in e.checks_so_far() if 'table iterator' in lab) if hasattr(e, 'checks_so_far') else None}
    results = e.explore(path)
    for r in results:
        for lab, ok, info in list(r.checks):
            if not ok and 'table iterator' in lab:
                res.fail('C11.K5:MapIterator advances a table iterator after the map may have changed',
                         'MapIterator keeps a hashbrown iterator into the map\'s buckets (ObjRef::data_static) across calls; an insert between two next() calls '
                         'reallocates the table and the next advance reads freed memory', info, replay=F31_REPLAY)
                r.checks.remove((lab, ok, info))
        if r.kind in ('panic', 'oob', 'unreachable', 'ub', 'diverge', 'depth'):
            res.fail(f'C11.K5:map_iterator:{r.kind}', f'map iterator: path ends in {r.kind}: {str(r.info)[:200]}', {'path': str(r.info)})
    summarize_paths(res, e, results, lambda r: r.info if isinstance(r.info, dict) else None, key_prefix='C11.K5:', unwind_ok=False)
