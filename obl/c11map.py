"""C11.K5 / C16 — the map iterator reads only live storage.

A hash table hands out iterators that point into its bucket allocation; any insert may move the table to a new allocation and any
removal rewrites control bytes the iterator has cached.  Rust's borrow rules forbid touching the table while such an iterator
lives; `ObjRef::data_static` launders the lifetime, so the rule has to be kept by construction.  The model gives every map a table
generation that changes whenever the program mutates the map; creating a table iterator records the generation, advancing it
requires the generation to be unchanged.  The history between two calls of a Laythe iterator is arbitrary (the iterator is a first
class value and `m[k] = v`, `m.insert`, `m.remove` are ordinary natives), so the generation is havocked between `new` and `next`."""
import z3
from vfw.core import obligation, get_program, summarize_paths
from mirsym.values import *
from mirsym.tys import *
from .vmabs import AbsObj, kind_of, object_of
from .c16natives import NativeCastWorld
from .c01 import VALUE

BV64 = z3.BitVecSort(64)
table_gen = z3.Function('table_generation', BV64, BV64, BV64)        # map identity, epoch -> generation of its bucket allocation

F31_SRC = ('let m = {"a": 1, "b": 2};\nlet it = m.iter();\nit.next();\nlet i = 0;\nwhile i < 1000 { m[i] = i; i = i + 1; }\n'
           'it.next();\nprint("done");\n')
F31_REPLAY = dict(kind='lay', source=F31_SRC, valgrind=True, note='the table is reallocated by the inserts; the iterator still points into the freed buckets')


class _TableIter:
    """hashbrown::hash_map::Iter over the table of one map, bound to the generation it was created at"""
    rust_ty = 'hash_map::Iter'

    def __init__(self, mid, gen):
        self.mid, self.gen, self.n = mid, gen, 0

    def copy_value(self, eng):
        return self

    def advance(self, e):
        cur = table_gen(self.mid, bv(e.path_state['epoch'], 64))
        e.check(self.gen == cur, 'the table iterator is advanced only while the table is the one it was created from (no insert / remove since)',
                {'created_at_generation': str(self.gen), 'epoch': e.path_state['epoch']})
        k = self.n
        self.n += 1
        if k < 3 and e.fork_bool(z3.Bool(f'table_has_more_{k}')):
            return (e.fresh(VALUE, e.fresh_name('key')), e.fresh(VALUE, e.fresh_name('val')))
        return None

    def iter_next(self, e, fr):
        kv = self.advance(e)
        if kv is None:
            return None
        return Struct('()', [Cell(Ref(Cell(kv[0]))), Cell(Ref(Cell(kv[1])))])


class _MapData:
    """the Map behind an ObjRef<Map>"""
    rust_ty = 'Map'

    def __init__(self, mid):
        self.mid = mid

    def copy_value(self, eng):
        return self


def _world():
    W = NativeCastWorld()
    e, P = W.e, W.P
    m = e.model

    def deep(e_, v):
        while isinstance(v, Ref):
            v = v.cell.get(e_)
        return v

    def m_data(e_, a, c):
        o = deep(e_, a[0])
        if isinstance(o, AbsObj) and 'Map' in o.ty:
            return Ref(Cell(_MapData(o.id)))
        return NotImplemented
    m(r'^(laythe_core::)?(reference::)?(obj_reference::)?ObjRef::data_static$', m_data)
    m(r'^<(laythe_core::)?(reference::)?(obj_reference::)?ObjRef as (std::ops::|core::ops::)?Deref(Mut)?>::deref(_mut)?$',
      lambda e_, a, c: m_data(e_, a, c))

    def m_iter(e_, a, c):
        d = deep(e_, a[0])
        if not isinstance(d, _MapData):
            return NotImplemented
        return _TableIter(d.mid, table_gen(d.mid, bv(e_.path_state['epoch'], 64)))
    m(r'^(laythe_core::)?(object::)?(map::)?Map::(iter|iter_mut)$', m_iter)

    def m_len(e_, a, c):
        d = deep(e_, a[0])
        if not isinstance(d, _MapData):
            return NotImplemented
        n = z3.BitVec(e_.fresh_name('map_len'), 64)
        e_.add_constraint(z3.ULT(n, 1 << 32))
        return n
    m(r'^(laythe_core::)?(object::)?(map::)?Map::len$', m_len)

    def m_next(e_, a, c):
        it = deep(e_, a[0])
        if not isinstance(it, _TableIter):
            return NotImplemented
        oty = norm_ty(c.dest_ty) if c.dest_ty else 'Option'
        kv = it.iter_next(e_, c.frame)
        return e_.mk_option(e_, oty) if kv is None else e_.mk_option(e_, oty, kv)
    m(r'^<(hashbrown::)?(hash_map::|map::)?Iter as (std::iter::|core::iter::)?Iterator>::next$', m_next)
    return W


@obligation('C11.K5.map_iterator_storage', 'C11', programs=('vm',), also=('C16',))
def k5_map_iterator(res, tier):
    """MapIterator::new, then ANY history of inserts into / removals from the same map, then MapIterator::next (twice): every advance
    of a hash-table iterator happens on the table generation the iterator was created from, i.e. the Laythe iterator never holds a
    raw table iterator across a point where the program can mutate the map"""
    W = _world()
    e, P = W.e, W.P
    src = P.items.files['laythe_lib/src/global/primitives/map.rs']
    import re
    mm = re.search(r'^impl MapIterator \{', src, re.M)
    line = src.count('\n', 0, mm.start()) + 1
    fnew = [f for f in P.fns if f.name.endswith('::new') and f'<impl at laythe_lib/src/global/primitives/map.rs:{line}:' in f.name]
    mm = re.search(r'^impl Enumerate for MapIterator\b', src, re.M)
    line = src.count('\n', 0, mm.start()) + 1
    fnext = [f for f in P.fns if f.name.endswith('::next') and f'<impl at laythe_lib/src/global/primitives/map.rs:{line}:' in f.name]
    if len(fnew) != 1 or len(fnext) != 1:
        res.inconclusive('MapIterator::new / next not located')
        return
    res.bounds = {'entries in the map': '0..3 (the table iterator yields at most 3)', 'calls of next': 2, 'mutations between calls': 'any (generation havocked)'}
    res.assumptions = ['MapSet / MapInsert / MapRemove call Map::insert / remove, which may reallocate or rewrite the table (hashbrown contract)',
                       'the map object itself stays alive (the iterator traces it: C05.K1)']

    def path(e):
        W.W.fresh_state(e)
        e.path_state['casts'] = []
        e.path_state['epoch'] = 0
        mp = AbsObj(z3.BitVec('the_map', 64), 'ObjRef<Map>')
        e.add_constraint(kind_of(mp.id) == P.enum_def('laythe_core::object::ObjectKind').vindex['Map'])
        it = e.call(fnew[0], [mp])
        cell = Cell(it)
        hooks = Ref(Cell(Opaque('Hooks', 'hooks')))
        for k in range(2):
            e.path_state['epoch'] += 1          # the program ran: the table may have been mutated any number of times
            e.call(fnext[0], [Ref(cell), hooks])
        return {'fn': 'MapIterator', 'advances': sum(1 for lab, ok, _ in e.checks_so_far() if 'table iterator' in lab) if hasattr(e, 'checks_so_far') else None}
    results = e.explore(path)
    for r in results:
        for lab, ok, info in list(r.checks):
            if not ok and 'table iterator' in lab:
                res.fail('C11.K5:MapIterator advances a table iterator after the map may have changed',
                         'MapIterator keeps a hashbrown iterator into the map\'s buckets (ObjRef::data_static) across calls; an insert between two next() calls '
                         'reallocates the table and the next advance reads freed memory', info, replay=F31_REPLAY)
                r.checks.remove((lab, ok, info))
        if r.kind in ('panic', 'oob', 'unreachable', 'ub', 'diverge', 'depth'):
            res.fail(f'C11.K5:map_iterator:{r.kind}', f'map iterator: path ends in {r.kind}: {str(r.info)[:200]}', {'path': str(r.info)})
    summarize_paths(res, e, results, lambda r: r.info if isinstance(r.info, dict) else None, key_prefix='C11.K5:', unwind_ok=False)


F73_SRC = ('let m = {};\nclass A { str() { for i in 2000.times() { m[i] = i; } return "A"; } }\nm["k1"] = A(); m["k2"] = 2; m["k3"] = 3;\nprint(m.str().len() > 0);\n')
F73_REPLAY = dict(kind='lay', source=F73_SRC, valgrind=True, note='the str() of a value inserts into the map that is being printed: the table is reallocated under the native\'s iterator')


@obligation('C11.K5.map_str_storage', 'C11', programs=('vm',), also=('C16', 'C05'))
def k5_map_str(res, tier):
    """MapStr::call from MIR with the str() callbacks as arbitrary programs (each one may insert into or remove from the map: the table
    generation is havocked by every callback): the native never advances a hash-table iterator created before a callback"""
    W = _world()
    e, P = W.e, W.P
    import re
    from .c16natives import _call_fn
    f = _call_fn(P, 'laythe_lib/src/global/primitives/map.rs', 'MapStr')
    if f is None:
        res.inconclusive('MapStr::call not located')
        return
    e.max_paths = 4000
    res.bounds = {'entries in the map': '0..3', 'entries formatted after the copy': '0..1', 'callbacks': 'any program (the table generation changes with every callback)'}
    res.assumptions = ['a str() callback may insert into / remove from the map (hashbrown may reallocate or rewrite the table)']
    RES = P.enum_def('Result')

    def callback(e_, a, c):
        e_.path_state['epoch'] += 1
        e_.path_state['events'].append(('hook',))
        return EnumV('Result<Value, LyError>', 0, {'Ok': {0: Cell(e_.fresh(VALUE, e_.fresh_name('callback_value')))}}, None, RES)
    e.model(r'^(laythe_core::)?(hooks::)?(Hooks|ValueHooks)::(call|call_method|get_method)$', callback)
    # a list built from a slice (list!(&*entries)): a new list object; its contents do not matter here
    def m_manage_list(e_, a, c):
        v = a[1]
        if isinstance(v, Struct) and 'VecBuilder' in str(getattr(v, 'ty', '')):
            return AbsObj(z3.BitVec(e_.fresh_name('new_list'), 64), 'List')
        return NotImplemented
    e.model(r'^(laythe_core::)?(hooks::)?(Hooks|GcHooks)::manage_obj$', m_manage_list)

    # the raw shared vector the allocation hands back: addressed by identity, its elements are a row of any values
    from .vmabs import AbsArr

    def raw_row(e_, v):
        while isinstance(v, Ref):
            v = v.cell.get(e_)
        if not hasattr(v, 'id'):
            return None
        row = AbsArr(v.id, VALUE).seq(e_)
        e_.add_constraint(z3.ULE(row.len, 2))
        return row
    e.model(r'^(laythe_core::)?(collections::)?(\w+::)*RawSharedVector::len$', lambda e_, a, c: raw_row(e_, a[0]).len if raw_row(e_, a[0]) is not None else NotImplemented)

    def m_raw_deref(e_, a, c):
        row = raw_row(e_, a[0])
        return SliceRef(row, bv(0, 64), row.len) if row is not None else NotImplemented
    e.model(r'^<(laythe_core::)?(collections::)?(\w+::)*RawSharedVector as (std::ops::|core::ops::)?Deref(Mut)?>::deref(_mut)?$', m_raw_deref)
    sds = [d for d in P.items.structs.get('MapStr', []) if d.file.endswith('primitives/map.rs')]

    def path(e):
        W.W.fresh_state(e)
        e.path_state['casts'] = []
        e.path_state['epoch'] = 0
        v = e.fresh(VALUE, 'receiver')
        W.constrain(e, v, 'Map')
        me = Struct('MapStr', None, NameBacking('native_self')) if sds and sds[0].fields else Struct('MapStr', {}, None)
        args = ConcSeq('Value', [Cell(v)])
        e.call(f, [Ref(Cell(me)), Ref(Cell(Opaque('Hooks', 'hooks'))), SliceRef(args, bv(0, 64), bv(1, 64))])
        return {'fn': 'MapStr', 'callbacks': e.path_state['epoch']}
    results = e.explore(path)
    seen = False
    for r in results:
        for lab, ok, info in list(r.checks):
            if not ok and 'table iterator' in lab:
                if not seen:
                    seen = True
                    res.fail('C11.K5:MapStr advances a table iterator after a callback may have changed the map',
                             'MapStr walks map.iter() and calls str() on every key and value inside the loop; a callback that inserts reallocates the table and the next '
                             'advance reads freed memory', info, replay=F73_REPLAY)
                r.checks.remove((lab, ok, info))
        if r.kind in ('oob', 'unreachable', 'ub', 'diverge', 'depth'):
            res.fail(f'C11.K5:map_str:{r.kind}', f'MapStr: path ends in {r.kind}: {str(r.info)[:200]}', {'path': str(r.info)})
    summarize_paths(res, e, results, lambda r: r.info if isinstance(r.info, dict) else None, key_prefix='C11.K5:map_str:', unwind_ok=True)
    if not any(isinstance(r.info, dict) and r.info.get('callbacks') for r in results if r.kind == 'ok') and not seen:
        res.inconclusive('MapStr: no path with a callback was decided')
