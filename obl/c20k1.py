"""C20.K1 — every block is released with the size and alignment it was obtained with, and size() reports that size.

Per object kind the real allocation path (the kind's AllocateObj::alloc) runs on a block memory (memabs) with a symbolic
length / capacity; then the real ObjectHandle::size and <ObjectHandle as Drop>::drop run on the handle it produced."""
import z3
from vfw.core import obligation, get_program, summarize_paths
from mirsym.engine import Engine
from mirsym.values import *
from mirsym.tys import *
from . import memabs
from .memabs import BlockPtr, LayoutV

FIXED = ['Channel', 'Map<Value, Value>', 'Fun', 'Closure', 'Class', 'Enumerator', 'Method', 'Native', 'LyBox']


def _engine(P, skip_loops):
    e = Engine(P, loop_bound=8, timeout_s=300, max_depth=60, max_paths=3000)
    memabs.install(e, P)
    e.allow_havoc(r'^(std|alloc|core)::fmt::', r'^format$', r'Arguments::', r'^(std|core)::panicking::')
    if skip_loops:
        # element loops of drop only read the elements (ptr::read) and have no effect on the layout handed to dealloc
        e.model(r'^<(std::ops::|core::ops::)?Range as (std::iter::|core::iter::)?Iterator>::next$',
                lambda e_, a, c: EnumV('Option<usize>', 0, None, None, P.enum_def('Option')))
    return e


def _after_alloc(e, P, res_struct, what):
    """checks on the AllocObjResult of one allocation"""
    sd = P.struct_def('laythe_core::managed::allocate::AllocObjResult')
    ix = {n: i for i, (n, _) in enumerate(sd.fields)}
    handle = res_struct.f[ix['handle']].get(e)
    size = res_struct.f[ix['size']].get(e)
    ev = e.path_state.get('mem_events', [])
    allocs = [x for x in ev if x[0] == 'alloc']
    e.check(len(allocs) == 1, f'{what}: exactly one block is obtained')
    blk = allocs[0][1]
    e.check(size == blk.size, f'{what}: the size reported at allocation (added to bytes_allocated) is the size of the block obtained')
    f_size = P.lookup('ObjectHandle::size')
    s2 = e.call(f_size, [Ref(Cell(handle))])
    e.check(s2 == blk.size, f'{what}: ObjectHandle::size (summed by every sweep) is the size of the block obtained')
    c = P._method_cands('ObjectHandle', 'Drop', 'drop')
    assert len(c) == 1, c
    e.exec_fn(c[0][0], [Ref(Cell(handle))], 0, None)
    de = [x for x in e.path_state['mem_events'] if x[0] == 'dealloc']
    e.check(len(de) == 1, f'{what}: dropping the handle releases exactly one block')
    if de:
        _, b2, dsize, dalign, off, twice = de[0]
        e.check(b2 is blk and conc(off) == 0, f'{what}: the block released is the block obtained (at its base address)')
        e.check(dsize == blk.size, f'{what}: the block is released with the size it was obtained with', {'obtained': str(blk.size), 'released': str(dsize)})
        e.check(dalign == blk.align, f'{what}: the block is released with the alignment it was obtained with')
        e.check(not twice, f'{what}: released once')
    return blk


F42_SRC = 'class A {\n  init() {\n' + ''.join(f'    self.f{i} = {i};\n' for i in range(300)) + '  }\n}\nprint(A().f299);\n'
F42_REPLAY = dict(kind='lay', source=F42_SRC, expect_stdout='299\n', bad_re='panicked')


def _run(res, tier, prog, what, build, skip_loops, bounds, panic_replay=None):
    P = get_program(prog)
    e = _engine(P, skip_loops)

    def path(e):
        r = build(e, P)
        blk = _after_alloc(e, P, r, what)
        return {'kind': what, 'block': str(z3.simplify(blk.size))[:80]}
    results = e.explore(path)
    for r in results:
        if r.kind in ('oob', 'unreachable', 'ub', 'diverge', 'depth'):
            res.fail(f'C20.K1:{what}:{r.kind}', f'{what}: path ends in {r.kind}: {str(r.info)[:200]}', {'path': str(r.info)})
        if r.kind == 'panic' and panic_replay is not None:
            res.fail(f'C20.K1:{what}: the allocation panics for some sizes', f'{what}: the allocation ends in a host panic for sizes a program can request: {str(r.info)[:200]}',
                     {'path': str(r.info)}, replay=panic_replay)
    summarize_paths(res, e, results, lambda r: r.info if isinstance(r.info, dict) else None, key_prefix='C20.K1:', unwind_ok=False)


def _alloc_impl(P, self_pat):
    import re
    c = [f for f in P.fns if f.name.endswith('::alloc') and re.search(self_pat, f.name)]
    return c


def _sym_slice(e, ety, name, max_len=None):
    n = z3.BitVec(name + '_len', 64)
    if max_len is not None:
        e.add_constraint(z3.ULE(n, max_len))
    seq = e.fresh_seq(ety, NameBacking(name), n)
    return SliceRef(seq, bv(0, 64), n), n


def _variants():
    out = []
    for prog in ('core', 'core-nan'):
        for skip in (True, False):
            out.append((prog, skip))
    return out


for _prog, _skip in _variants():
    _sfx = ('' if _prog == 'core' else '.nan') + ('' if _skip else '.elems')
    _maxlen = None if _skip else 3

    def _mk(prog=_prog, skip=_skip, sfx=_sfx, maxlen=_maxlen):
        lb = 'any length (element loops of drop summarised)' if skip else 'length <= 3 with the element loops of drop executed'

        @obligation('C20.K1.string' + sfx, 'C20', programs=(prog,))
        def k1_string(res, tier):
            """a string: <&str as AllocateObj<LyStr>>::alloc, then ObjectHandle::size and drop"""
            res.bounds = {'length': lb}

            def build(e, P):
                from .vmabs import AbsStr
                s, n = _sym_slice(e, 'u8', 'text', maxlen)
                e.model(r'^<.* as (std::convert::|core::convert::)?AsRef>::as_ref$', lambda e_, a, c: a[0].cell.get(e_) if isinstance(a[0], Ref) else a[0])
                e.model(r'^(core::)?str::(<impl str>::)?as_bytes$', lambda e_, a, c: a[0])
                f = [x for x in P.fns if 'ly_str' in x.name and x.name.endswith('::alloc')]
                assert len(f) == 1, [x.name for x in f]
                return e.exec_fn(f[0], [s], 0, {'T': '&str'})
            _run(res, tier, prog, 'String', build, skip, res.bounds)

        @obligation('C20.K1.tuple' + sfx, 'C20', programs=(prog,))
        def k1_tuple(res, tier):
            """a tuple: <&[Value] as AllocateObj<Tuple>>::alloc, then ObjectHandle::size and drop"""
            res.bounds = {'length': lb}

            def build(e, P):
                s, n = _sym_slice(e, 'Value', 'items', maxlen)
                f = [x for x in P.fns if 'tuple' in x.name and x.name.endswith('::alloc')]
                assert len(f) == 1, [x.name for x in f]
                return e.exec_fn(f[0], [s], 0, None)
            _run(res, tier, prog, 'Tuple', build, skip, res.bounds)

        @obligation('C20.K1.list' + sfx, 'C20', programs=(prog,))
        def k1_list(res, tier):
            """a list: <VecBuilder<Value> as AllocateObj<..>>::alloc with any capacity >= length, then ObjectHandle::size and drop"""
            res.bounds = {'capacity': lb}

            def build(e, P):
                s, n = _sym_slice(e, 'Value', 'items', maxlen)
                cap = z3.BitVec('cap', 64)
                e.add_constraint(z3.ULE(n, cap))
                if maxlen is not None:
                    e.add_constraint(z3.ULE(cap, maxlen))
                sd = P.struct_def('laythe_core::collections::VecBuilder') or P.struct_def('VecBuilder')
                ix = {nm: i for i, (nm, _) in enumerate(sd.fields)}
                vb = Struct('VecBuilder<Value>', {}, None)
                vb.f[ix['slice']] = Cell(s)
                vb.f[ix['cap']] = Cell(cap)
                f = [x for x in P.fns if 'list' in x.name and x.name.endswith('::alloc')]
                assert len(f) == 1, [x.name for x in f]
                return e.exec_fn(f[0], [vb], 0, None)
            _run(res, tier, prog, 'List', build, skip, res.bounds)
    _mk()


def _fixed_kinds(P):
    """(kind, rust type) pairs from the drop_kind!/kind_size! tables are whatever `impl Object for T` exist"""
    import re
    out = []
    for rel, src in P.items.files.items():
        for m in re.finditer(r'impl(?:<[^>]*>)?\s+Object\s+for\s+([\w:]+(?:<[^{]*>)?)\s*\{', src):
            out.append(m.group(1).strip())
    return sorted(set(out))


for _prog in ('core', 'core-nan'):
    def _mk2(prog=_prog):
        sfx = '' if prog == 'core' else '.nan'

        @obligation('C20.K1.fixed' + sfx, 'C20', programs=(prog,))
        def k1_fixed(res, tier):
            """every fixed-size object kind (each `impl Object for T`): <T as AllocateObj<ObjRef<T>>>::alloc, then ObjectHandle::size and
            drop; the kind written into the header must select T's layout again in size() and in drop()"""
            P = get_program(prog)
            kinds = _fixed_kinds(P)
            res.bounds = {'kinds': kinds}
            assert len(kinds) >= 9, kinds
            f = [x for x in P.fns if 'obj_reference' in x.name and x.name.endswith('::alloc')]
            assert len(f) == 1, [x.name for x in f]
            for T in kinds:
                e = _engine(P, False)

                def path(e, T=T):
                    item = Opaque(T, 'item')
                    r = e.exec_fn(f[0], [item], 0, {'T': norm_ty(T)})
                    blk = _after_alloc(e, P, r, T)
                    return {'kind': T, 'block': str(z3.simplify(blk.size))}
                results = e.explore(path)
                for r in results:
                    if r.kind in ('panic', 'oob', 'unreachable', 'ub', 'diverge', 'depth'):
                        res.fail(f'C20.K1:{T}:{r.kind}', f'{T}: path ends in {r.kind}: {str(r.info)[:200]}', {'path': str(r.info)})
                summarize_paths(res, e, results, lambda r: r.info if isinstance(r.info, dict) else None, key_prefix='C20.K1:', unwind_ok=False)
    _mk2()


for _prog, _skip in _variants():
    def _mk3(prog=_prog, skip=_skip):
        sfx = ('' if prog == 'core' else '.nan') + ('' if skip else '.elems')
        maxlen = None if skip else 3

        @obligation('C20.K1.instance' + sfx, 'C20', programs=(prog,), also=('C16',))
        def k1_instance(res, tier):
            """an instance: <ObjRef<Class> as AllocateObj<Instance>>::alloc for a class with any number of fields, then size and drop"""
            res.bounds = {'fields': 'any below 2^16 (field indices are u16); no size may end in a host panic' if skip else '<= 3 with the element loops of drop executed'}

            def build(e, P):
                n = z3.BitVec('n_fields', 64)
                e.add_constraint(z3.ULT(n, 1 << 16))
                if maxlen is not None:
                    e.add_constraint(z3.ULE(n, maxlen))
                e.model(r'^(laythe_core::)?(object::)?(class::)?Class::fields$', lambda e_, a, c: n)
                e.model(r'^<(laythe_core::)?(reference::)?(obj_reference::)?ObjRef as (std::ops::|core::ops::)?Deref>::deref$', lambda e_, a, c: a[0])
                # &NIL_ARRAY[..n]: a slice of n nil values of the static array
                import re as _re

                def nil_array(e_, k):
                    seq = e_.memo.get(('nil_array', k))
                    if seq is None:
                        seq = e_.memo[('nil_array', k)] = e_.fresh_seq('Value', NameBacking('nil_array'), bv(k, 64))
                    return seq

                def m_static(e_, a, c):
                    k = int(_re.search(r'; (\d+)\]', c.norm).group(1))
                    return Ref(Cell(nil_array(e_, k)))
                e.model(r'^const \{alloc\d+: &\[.*Value; \d+\]\}$', m_static)

                def m_index(e_, a, c):
                    k = int(_re.search(r'; (\d+)\]', c.norm).group(1))
                    rng = a[1]
                    while isinstance(rng, Ref):
                        rng = rng.cell.get(e_)
                    end = rng.f[0].get(e_)
                    if not e_.fork_bool(z3.ULE(end, k)):
                        raise PathEnd('panic', 'slice index out of range')
                    return SliceRef(nil_array(e_, k), bv(0, 64), end)
                e.model(r'^<\[.*; \d+\] as (std::ops::|core::ops::)?Index>::index$', m_index)
                f = [x for x in P.fns if 'instance' in x.name and x.name.endswith('::alloc')]
                assert len(f) == 1, [x.name for x in f]
                return e.exec_fn(f[0], [Opaque('ObjRef<Class>', 'class')], 0, None)
            _run(res, tier, prog, 'Instance', build, skip, res.bounds, panic_replay=F42_REPLAY)
    _mk3()
