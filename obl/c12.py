"""C12 — the peephole optimiser never changes what a function does."""
import z3
from vfw.core import obligation, get_program, summarize_paths
from mirsym.engine import Engine
from mirsym.values import *
from . import bcsem
from .common import decode_enum, elem_value, tag_term

INS_TY = 'byte_code::SymbolicByteCode'


def _setup(e, f, K):
    e.loop_bound = K + 1

    def stop(eng, fr):
        if fr.visits['bb3'] >= 2:
            raise PathEnd('stop', fr)
    # locate the loop head: the block that calls VecCursor::at_end on the instruction cursor
    e.bb_hooks[(f.key, LOOP_HEAD[0])] = stop


LOOP_HEAD = ['bb3']


def find_loop_head(P, f):
    """the loop head is the unique block whose terminator calls VecCursor::<SymbolicByteCode>::at_end"""
    from mirsym.mir import parsed_block
    heads = []
    for bb in f.blocks:
        st, term, _ = parsed_block(f, bb)
        if term[0] == 'call' and 'at_end' in term[2] and 'SymbolicByteCode' in term[2]:
            heads.append(bb)
    if len(heads) != 1:
        raise Unsupported(f'peephole_optimize: expected one loop head, found {heads}')
    return heads[0]


def cursor_locals(P, f):
    """locals holding the two cursors (by declared type)"""
    ins = [k for k, t in f.locals.items() if t.replace(' ', '') == 'compiler::peephole::VecCursor<byte_code::SymbolicByteCode>'.replace(' ', '')
           or t.endswith('VecCursor<byte_code::SymbolicByteCode>') or t.endswith('VecCursor<SymbolicByteCode>')]
    lin = [k for k, t in f.locals.items() if t.endswith('VecCursor<u16>')]
    # the owned cursors are the lowest numbered locals of those types
    ins.sort(key=lambda x: int(x[1:]))
    lin.sort(key=lambda x: int(x[1:]))
    if not ins or not lin:
        raise Unsupported('peephole_optimize: cursor locals not found')
    return ins[0], lin[0]


def _val(e, o):
    """operand term -> concrete value when the path condition determines it (counts of DropN / Call)"""
    if z3.is_bv_value(o):
        return o
    if not e.sat():
        return o
    m = e.solver.model()
    v = m.eval(o, model_completion=True)
    if not e.sat(o != v):
        return v
    return o


@obligation('C12.K1', programs=('vm-dbg',))
def c12_k1(res, tier):
    """one iteration of peephole_optimize's rewrite loop from an arbitrary cursor position over an arbitrary
    program of arbitrary length: no panic, cursors consistent, emitted window equivalent to the consumed
    window under the abstract byte-code semantics, no label swallowed, lines attached to their instructions."""
    P = get_program('vm-dbg')
    f = P.lookup('compiler::peephole::peephole_optimize')
    head = find_loop_head(P, f)
    ins_l, lin_l = cursor_locals(P, f)
    K = 4 if tier == 'quick' else 8
    res.bounds = {'run_length_unroll_K': K, 'program_length': 'any < 2^32', 'cursor': 'any reader < len, writer <= reader'}
    res.assumptions = [
        'A1: a Call(n) immediately following PropertySlot or GetSuper has n == 0 (every argument expression is followed '
        'by ArgumentDelimiter; Compiler::call is the only emitter of Call — decided by C12.A1)',
        'abstract byte-code semantics of obl/bcsem.py (Invoke == GetPropByName;Call is C03.K2)',
    ]
    e = Engine(P, loop_bound=K + 1, timeout_s=900 if tier == 'thorough' else 300)
    ed = P.enum_def(INS_TY)
    LABEL = ed.vindex['Label']

    def stop(eng, fr):
        if fr.visits[head] >= 2:
            raise PathEnd('stop', fr)
    e.bb_hooks[(f.key, head)] = stop

    def path(e):
        n = z3.BitVec('n', 64)
        r = z3.BitVec('r', 64)
        w = z3.BitVec('w', 64)
        e.assume(z3.ULT(n, 1 << 32))
        e.assume(z3.ULT(r, n))
        e.assume(z3.ULE(w, r))
        ins = e.fresh_seq(INS_TY, NameBacking('ins'), n)
        lines = e.fresh_seq('u16', NameBacking('lines'), n)
        ins0, lines0 = ins.arr, lines.arr
        c1 = Struct('compiler::peephole::VecCursor<byte_code::SymbolicByteCode>', [ins, r, w])
        c2 = Struct('compiler::peephole::VecCursor<u16>', [lines, r, w])
        # assumption A1 is applied lazily below (needs the matched window)
        try:
            e.exec_fn(f, [None, None], 0, None, start_bb=head, preset={ins_l: c1, lin_l: c2})
        except PathEnd as pe:
            if pe.kind != 'stop':
                raise
            fr = pe.info
        else:
            return {'case': 'loop exit (unexpected from reader < len)'}
        a = fr.locals[ins_l].get(e)
        b = fr.locals[lin_l].get(e)
        r2, w2 = a.f[1].get(e), a.f[2].get(e)
        lr2, lw2 = b.f[1].get(e), b.f[2].get(e)
        dr = conc(z3.simplify(r2 - r))
        dw = conc(z3.simplify(w2 - w))
        if dr is None or dw is None:
            raise Unsupported('window size not concrete on a path')
        e.check(dr >= 1, 'progress: at least one instruction consumed')
        e.check(z3.ULE(w2, r2), 'writer <= reader after the step')
        e.check(z3.And(lr2 == r2, lw2 == w2), 'line cursor in lock step with instruction cursor')
        e.check(z3.And(a.f[0].get(e).len == n, b.f[0].get(e).len == n), 'vector lengths unchanged')
        ins2, lines2 = a.f[0].get(e).arr, b.f[0].get(e).arr
        # frame: nothing outside [w, r') is modified
        q = z3.BitVec('q_frame', 64)
        e.check(z3.Implies(z3.Or(z3.ULT(q, w), z3.UGE(q, r2)),
                           z3.And(z3.Select(ins2, q) == z3.Select(ins0, q), z3.Select(lines2, q) == z3.Select(lines0, q))),
                'written prefix and unread suffix untouched')
        consumed = [z3.Select(ins0, z3.simplify(r + i)) for i in range(dr)]
        emitted = [z3.simplify(z3.Select(ins2, z3.simplify(w + j))) for j in range(dw)]
        lin_in = [z3.Select(lines0, z3.simplify(r + i)) for i in range(dr)]
        lin_out = [z3.simplify(z3.Select(lines2, z3.simplify(w + j))) for j in range(dw)]
        # labels: only the first consumed instruction may be a label
        for k in range(1, dr):
            e.check(tag_term(e, ins, consumed[k]) != LABEL, f'no label swallowed inside a rewritten window')
        identity = dr == dw and all(z3.simplify(x == y) is not None and z3.is_true(z3.simplify(x == y)) for x, y in zip(emitted, consumed))
        desc = {'consumed': dr, 'emitted': dw}
        if identity:
            desc['rule'] = 'copy'
            for j in range(dw):
                e.check(lin_out[j] == lin_in[j], 'line preserved (copied instruction)')
            return desc
        # decode lazily: only instructions reachable inside the window are given a semantics
        def dec(t):
            def thunk():
                nme, ops = decode_enum(e, elem_value(e, ins, t))
                ops = [z3.simplify(o) for o in ops]
                return nme, ops
            return thunk

        def a1(seq):
            # assumption A1 on the consumed window
            for i in range(len(seq) - 1):
                if seq[i][0] in ('PropertySlot', 'GetSuper') and seq[i + 1][0] == 'Call':
                    e.assume(seq[i + 1][1][0] == 0)
        try:
            # first pass decodes the consumed window (forking on open variants), then A1, then both runs
            _, cons_dec = bcsem.run_decode_only([dec(t) for t in consumed])
            a1(cons_dec)
            cons_dec = [(nme, [z3.simplify(o) if not z3.is_bv_value(o) else o for o in ops]) for nme, ops in cons_dec]
            cons_dec = [(nme, [_val(e, o) for o in ops]) for nme, ops in cons_dec]
            s1, _ = bcsem.run([(lambda x=x: x) for x in cons_dec])
            s2, emit_dec = bcsem.run([dec(t) for t in emitted], value_of=lambda o: _val(e, o))
        except bcsem.NoSemantics as ex:
            desc['in'] = str(consumed)
            e.check(False, f'rewrite of a window the reference semantics does not cover', dict(desc, why=str(ex)))
            return desc
        desc['in'] = [f'{nme}({", ".join(str(o) for o in ops)})' for nme, ops in cons_dec]
        desc['out'] = [f'{nme}({", ".join(str(o) for o in ops)})' for nme, ops in emit_dec]
        e.check(bcsem.states_equal(s1, s2), 'emitted window equivalent to consumed window', desc)
        # lines: each emitted instruction carries the line of a consumed instruction; the first keeps the first
        if dw >= 1:
            e.check(lin_out[0] == lin_in[0], 'first emitted instruction keeps the line of the first consumed one', desc)
        fused = any(nme in ('Invoke', 'SuperInvoke') for nme, _ in emit_dec)
        for j in range(1, dw):
            if dw == dr and not fused:
                e.check(lin_out[j] == lin_in[j], 'line preserved position-wise', desc)
            else:
                e.check(z3.Or(*[lin_out[j] == x for x in lin_in]), 'emitted line stems from the consumed window', desc)
        return desc

    results = e.explore(path)
    for r in results:
        if r.kind in ('panic', 'oob', 'unreachable', 'ub', 'diverge'):
            res.fail('C12.K1:panic:' + str(r.info[-1] if isinstance(r.info, tuple) else r.info)[:80],
                     f'rewrite step can panic: {r.info}', {'path': str(r.info)})
    summarize_paths(res, e, results, lambda r: r.info if r.kind == 'ok' and isinstance(r.info, dict) else None,
                    key_prefix='C12.K1:')
    res.outside.append(f'runs of Drop / repeated loads / dead code longer than K={K} instructions inside one step')
