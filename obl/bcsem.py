"""Abstract semantics of the symbolic byte code used to compare instruction windows (C12, lowering checks).

Declarative and small on purpose: values are an uninterpreted sort, effects that the optimiser must not
reorder or drop (property lookups, calls, box/module writes) are threaded through an uninterpreted `World`.
Invoke / SuperInvoke are *defined* as property-lookup-then-call (that the VM implements them so is the
separate obligation C03.K2)."""
import z3

Val = z3.DeclareSort('Val')
World = z3.DeclareSort('World')
Args = z3.DeclareSort('Args')
BV8 = z3.BitVecSort(8)
BV16 = z3.BitVecSort(16)
BV32 = z3.BitVecSort(32)

below = z3.Function('stack_below', z3.IntSort(), Val)          # i-th value under the symbolic window
BoxHeap = z3.ArraySort(Val, Val)
getprop = z3.Function('getprop', World, Val, BV16, Val)
getprop_w = z3.Function('getprop_w', World, Val, BV16, World)
getsuper = z3.Function('getsuper', World, Val, Val, BV16, Val)
getsuper_w = z3.Function('getsuper_w', World, Val, Val, BV16, World)
nil_args = z3.Const('nil_args', Args)
cons_arg = z3.Function('cons_arg', Val, Args, Args)
call_v = z3.Function('call_v', World, Val, Args, Val)
call_w = z3.Function('call_w', World, Val, Args, World)
raise_w = z3.Function('raise_w', World, Val, World)
havoc_boxes = z3.Function('havoc_boxes', World, BoxHeap, BoxHeap)
havoc_mods = z3.Function('havoc_mods', World, z3.ArraySort(BV16, Val), z3.ArraySort(BV16, Val))


class AState:
    def __init__(self):
        self.stack = []         # values pushed above the symbolic base (python list of Val terms)
        self.pops = 0           # how many values of the base have been consumed
        self.locals = z3.Const('locals0', z3.ArraySort(BV8, Val))
        self.captures = z3.Const('captures0', z3.ArraySort(BV8, Val))
        self.modsyms = z3.Const('modsyms0', z3.ArraySort(BV16, Val))
        self.world = z3.Const('world0', World)
        self.boxes = z3.Const('boxes0', BoxHeap)
        self.control = None     # None | ('jump', label) | ('loop', label) | ('return', v) | ('raise',)

    def pop(self):
        if self.stack:
            return self.stack.pop()
        v = below(self.pops)
        self.pops += 1
        return v

    def top(self):
        if self.stack:
            return self.stack[-1]
        return below(self.pops)

    def push(self, v):
        self.stack.append(v)


class NoSemantics(Exception):
    pass


def step(st, name, ops):
    """name: variant name, ops: list of z3 operand terms (already flattened)"""
    if st.control is not None:
        return
    if name == 'Drop':
        st.pop()
    elif name == 'DropN':
        n = ops[0]
        if not z3.is_bv_value(n):
            raise NoSemantics('DropN with symbolic count')
        for _ in range(n.as_long()):
            st.pop()
    elif name == 'Dup':
        st.push(st.top())
    elif name == 'GetLocal':
        st.push(z3.Select(st.locals, ops[0]))
    elif name == 'SetLocal':
        st.locals = z3.Store(st.locals, ops[0], st.top())
    elif name == 'GetBox':
        st.push(z3.Select(st.boxes, z3.Select(st.locals, ops[0])))
    elif name == 'SetBox':
        st.boxes = z3.Store(st.boxes, z3.Select(st.locals, ops[0]), st.top())
    elif name == 'GetCapture':
        st.push(z3.Select(st.boxes, z3.Select(st.captures, ops[0])))
    elif name == 'SetCapture':
        st.boxes = z3.Store(st.boxes, z3.Select(st.captures, ops[0]), st.top())
    elif name == 'GetModSym':
        st.push(z3.Select(st.modsyms, ops[0]))
    elif name == 'SetModSym':
        st.modsyms = z3.Store(st.modsyms, ops[0], st.top())
    elif name == 'GetPropByName':
        r = st.pop()
        w = st.world
        st.world = getprop_w(w, r, ops[0])
        st.push(getprop(w, r, ops[0]))
    elif name in ('PropertySlot', 'InvokeSlot', 'ArgumentDelimiter', 'Label'):
        pass
    elif name == 'Call':
        _call(st, ops[0], None)
    elif name == 'Invoke':
        _call(st, ops[1], ('prop', ops[0]))
    elif name == 'GetSuper':
        cls = st.pop()
        recv = st.pop()
        w = st.world
        st.world = getsuper_w(w, recv, cls, ops[0])
        st.push(getsuper(w, recv, cls, ops[0]))
    elif name == 'SuperInvoke':
        _call(st, ops[1], ('super', ops[0]))
    elif name == 'Jump':
        st.control = ('jump', ops[0])
    elif name == 'Loop':
        st.control = ('loop', ops[0])
    elif name == 'Return':
        st.control = ('return', st.pop())
    elif name == 'Raise':
        v = st.pop()
        st.world = raise_w(st.world, v)
        st.control = ('raise',)
    else:
        raise NoSemantics(name)


def _call(st, n, via):
    if not z3.is_bv_value(n):
        raise NoSemantics('call with symbolic argument count')
    args = nil_args
    for _ in range(n.as_long()):
        args = cons_arg(st.pop(), args)
    w = st.world
    if via is None:
        callee = st.pop()
    elif via[0] == 'prop':
        r = st.pop()
        callee = getprop(w, r, via[1])
        w = getprop_w(w, r, via[1])
    else:
        raise NoSemantics('SuperInvoke is interpreted by run()')
    st.world = call_w(w, callee, args)
    _havoc(st)
    st.push(call_v(w, callee, args))


def _havoc(st):
    st.boxes = havoc_boxes(st.world, st.boxes)
    st.modsyms = havoc_mods(st.world, st.modsyms)


def step_super_invoke0(st, slot):
    """SuperInvoke((slot, 0)): pops the super class, then behaves as a bound call on the receiver"""
    cls = st.pop()
    recv = st.pop()
    w = st.world
    callee = getsuper(w, recv, cls, slot)
    w = getsuper_w(w, recv, cls, slot)
    st.world = call_w(w, callee, nil_args)
    _havoc(st)
    st.push(call_v(w, callee, nil_args))


TRANSFERS = ('Jump', 'Loop', 'Return', 'Raise')


def run_decode_only(decoders):
    """decode the reachable prefix of a window without interpreting it"""
    seen = []
    for d in decoders:
        name, ops = d()
        seen.append((name, ops))
        if name in TRANSFERS:
            break
    return None, seen


def run(decoders, value_of=None):
    """decoders: list of thunks, each returning (name, [ops]); an instruction is decoded only if it is
    reachable (control has not been transferred), so dead code needs no semantics.  -> (AState, decoded)"""
    st = AState()
    seen = []
    for d in decoders:
        if st.control is not None:
            break
        name, ops = d()
        if value_of is not None:
            ops = [value_of(o) for o in ops]
        seen.append((name, ops))
        if name == 'SuperInvoke':
            n = ops[1]
            if not z3.is_bv_value(n) or n.as_long() != 0:
                raise NoSemantics('SuperInvoke with arguments')
            step_super_invoke0(st, ops[0])
        else:
            step(st, name, ops)
    return st, seen


def _expanded(st, P):
    return [below(i) for i in range(P - 1, st.pops - 1, -1)] + st.stack


def states_equal(a, b):
    """z3 formula (or python bool) stating the two abstract states are observably equal"""
    P = max(a.pops, b.pops)
    sa, sb = _expanded(a, P), _expanded(b, P)
    if len(sa) != len(sb):
        return False
    if (a.control is None) != (b.control is None):
        return False
    cs = [a.locals == b.locals, a.captures == b.captures, a.modsyms == b.modsyms, a.world == b.world,
          a.boxes == b.boxes]
    for x, y in zip(sa, sb):
        cs.append(x == y)
    if a.control is not None:
        if a.control[0] != b.control[0]:
            return False
        for x, y in zip(a.control[1:], b.control[1:]):
            cs.append(x == y)
    return z3.And(*cs)
