"""C05.K1 — every trace body visits every managed reference its object holds (mark completeness, one level).

For each type with a hand-written `impl Trace` the real `trace` runs on an arbitrary value of the type whose managed references
are abstract identities; the traces of the referenced things are recorded instead of followed.  The obligation then walks the same
value along its *type definition* (struct fields, Option, Vec, maps, deques, values) and demands that every managed identity found
there was handed to a trace.  Omitting a field, half of a ring buffer or the captures of a frame is a violation."""
import re
import z3
from vfw.core import obligation, get_program, summarize_paths
from mirsym.engine import Engine
from mirsym.values import *
from mirsym.tys import *
from .vmabs import VmWorld, AbsObj, AbsGc, AbsUVec, AbsArr, install_gc_refs, OBJ_TYPES
from .c01 import ValView

MAXN = 2      # elements per container (3 in the thorough tier, set by _tier)


def _tier(tier):
    global MAXN
    MAXN = 2 if tier == 'quick' else 3


class TraceWorld:
    def __init__(self, prog):
        self.P = P = get_program(prog)
        self.e = e = Engine(P, loop_bound=MAXN + 3, timeout_s=240, max_depth=40, max_paths=4000)
        self.W = VmWorld(e, P)
        install_gc_refs(e)
        m = e.model

        def ident(e_, v):
            while isinstance(v, Ref):
                o = e_.memo.get(('cellobj', id(v.cell)))
                if o is not None:
                    return o.id
                v = v.cell.get(e_)
            if type(v) is Lazy:
                v = v.force(e_)
            if isinstance(v, (AbsObj, AbsGc, AbsArr)):
                return v.id
            return None

        def m_leaf_trace(e_, a, c):
            i = ident(e_, a[0])
            if i is None:
                v = a[0]
                while isinstance(v, Ref):
                    v = v.cell.get(e_)
                if isinstance(v, AbsUVec):
                    e_.path_state['traced_vecs'].append(v)
                    return UNIT
                return NotImplemented
            e_.path_state['traced'].append(i)
            return UNIT
        # traces of references are recorded, not followed
        m(r'^<(laythe_core::)?(\w+::)*(ObjectRef|ObjRef|Ref|LyStr|List|Tuple|Instance|UniqueVector|Array|Captures) as (laythe_core::)?(managed::)?(\w+::)?Trace>::trace$', m_leaf_trace)
        e.allow_havoc(r'^(std|alloc|core)::fmt::', r'Arguments::', r'^format$')
        m(r'^<dyn (laythe_core::)?(\w+::)*Trace as (laythe_core::)?(\w+::)*Trace>::trace$', m_leaf_trace)
        m(r'^<dyn (laythe_core::)?(\w+::)*TraceAny as (laythe_core::)?(\w+::)*TraceAny>::as_trace$', lambda e_, a, c: a[0])
        # type aliases and boxed slices
        hs = [fn for rx, fn in e.materialisers if 'HashSet' in rx.pattern]
        if hs:
            e.materialisers.insert(0, (re.compile(r'^(laythe_core::)?LyHashSet<.*>$'), hs[0]))

        def mat_box_slice(e_, ty, backing):
            inner = ty_args(norm_ty(ty))[0].strip()
            ety = inner[1:-1].strip()
            n = backing.child('len').leaf(e_, z3.BitVecSort(64))
            e_.add_constraint(z3.ULE(n, MAXN))
            return SliceRef(e_.fresh_seq(ety, backing.child('buf'), n), bv(0, 64), n)
        e.materialiser(r'^(std::boxed::|alloc::boxed::)?Box<\[.*\]>$', mat_box_slice)
        e.materialiser(r'^(std::boxed::|alloc::boxed::)?Box<dyn .*>$', lambda e_, ty, backing: AbsGc(backing.child('id').leaf(e_, z3.BitVecSort(64)), 'dyn'))
        self.ident = ident

    def start(self, e):
        e.path_state['traced'] = []
        e.path_state['traced_vecs'] = []
        e.path_state['map_bound'] = MAXN
        e.path_state['events'] = []
        e.path_state['allocs'] = 0

    # ------------------------------------------------------------------ the walk along the type definition
    def leaves(self, e, v, ty, out, cond=True, path='', depth=0):
        P = self.P
        if depth > 6:
            raise Unsupported('type nesting too deep at ' + path)
        if type(v) is Lazy:
            v = v.force(e)
        while isinstance(v, Ref) and not e.memo.get(('cellobj', id(v.cell))):
            v = v.cell.get(e)
            if type(v) is Lazy:
                v = v.force(e)
        if isinstance(v, (AbsObj, AbsGc, AbsArr)):
            out.append((cond, v.id, path))
            return
        if isinstance(v, Ref):
            out.append((cond, e.memo[('cellobj', id(v.cell))].id, path))
            return
        if isinstance(v, AbsUVec):
            out.append((cond, ('uvec', v), path))
            return
        if isinstance(v, EnumV) and ty_head(v.ty) == 'Value':
            vw = ValView(e, P, v)
            out.append((b_and(cond, vw.is_obj), vw.obj.id, path))
            return
        if isinstance(v, EnumV) and ty_head(v.ty) == 'Option':
            if isinstance(v.tag, int):
                some = v.tag == 1
            else:
                some = e.fork_bool(v.tag == 1)
            if some:
                inner_ty = ty_args(norm_ty(v.ty))[0] if ty_args(norm_ty(v.ty)) else None
                self.leaves(e, e.payload0(v, 'Some'), inner_ty, out, cond, path + '?', depth + 1)
            return
        if isinstance(v, EnumV):
            ed = v.edef
            if all(not var[2] for var in ed.variants):
                return
            raise Unsupported(f'walk over enum {v.ty} at {path}')
        if isinstance(v, SliceRef):
            n = e.concretize(e.slice_len(v), list(range(MAXN + 1)))
            for i in range(n):
                self.leaves(e, e.seq_cell(v.seq, z3.simplify(v.start + i)).get(e), None, out, cond, f'{path}[{i}]', depth + 1)
            return
        if isinstance(v, SymSeq):
            e.add_constraint(z3.ULE(v.len, MAXN))
            n = e.concretize(v.len, list(range(MAXN + 1)))
            for i in range(n):
                self.leaves(e, v.load(e, bv(i, 64)), v.elem_ty if hasattr(v, 'elem_ty') else None, out, cond, f'{path}[{i}]', depth + 1)
            return
        if isinstance(v, ConcSeq):
            for i, c in enumerate(v.cells):
                self.leaves(e, c.get(e), None, out, cond, f'{path}[{i}]', depth + 1)
            return
        if hasattr(v, 'entries'):          # hash map / set
            for i, (k, c) in enumerate(v.entries):
                self.leaves(e, k, None, out, cond, f'{path}.key{i}', depth + 1)
                self.leaves(e, c.get(e), None, out, cond, f'{path}.val{i}', depth + 1)
            return
        if type(v).__name__ == 'DequeV':
            e.add_constraint(z3.ULE(v.len, MAXN))
            n = e.concretize(v.len, list(range(MAXN + 1)))
            for i in range(n):
                self.leaves(e, v.seq.load(e, z3.simplify(v.head + i)), None, out, cond, f'{path}<{i}>', depth + 1)
            return
        if isinstance(v, Struct):
            sd = P.struct_def(v.ty) if v.ty != '()' else None
            if sd is None:
                for k in sorted(v.f):
                    self.leaves(e, v.f[k].get(e), None, out, cond, f'{path}.{k}', depth + 1)
                return
            for i, (nm, fty) in enumerate(sd.fields):
                fty2 = subst_generics(fty, sd, v.ty)
                if not self.may_hold_managed(fty2) or norm_ty(fty2).startswith('*'):
                    continue      # raw pointers are positions inside something owned elsewhere, not owners
                self.leaves(e, v.field(e, i, fty2).get(e), fty2, out, cond, f'{path}.{nm or i}', depth + 1)
            return
        if isinstance(v, (z3.ExprRef, bool, int, Opaque, FnItem, StrV, SeqPtr)) or v is None:
            return
        if type(v).__name__ in ('RcRefCell', 'AbsStr'):
            return
        raise Unsupported(f'walk over {type(v).__name__} at {path}')

    def may_hold_managed(self, ty):
        t = norm_ty(ty)
        return bool(re.search(r'\b(ObjRef|ObjectRef|Ref|Value|LyStr|List|Tuple|Instance|Map|Vec|VecDeque|HashMap|HashSet|LyHashSet|Option|UniqueVector|Array|Captures|Chunk|Module|Class|Fun|Closure|Method|Native|NativeMeta|NativeSignature|Parameter|Channel|ChannelQueue|ChannelWaiter|Fiber|CallFrame|Header|Package|Import|VmFiles|VmFile|Source|Enumerator|LyBox)\b', t))


SUBJECTS = [
    # (id suffix, program, type, lookup of the trace fn, fields deliberately not followed -> reason)
    ('call_frame', 'vm', 'fiber::call_frame::CallFrame', {}),
    ('channel_queue', 'vm', 'laythe_core::object::channel::channel_queue::ChannelQueue', {}),
    ('channel_waiter', 'vm', 'laythe_core::object::channel::channel_waiter::ChannelWaiter', {}),
    ('channel', 'vm', 'laythe_core::object::Channel', {}),
    ('class', 'vm', 'laythe_core::object::Class', {'init': 'a copy of the methods entry named init (Class::add_method, C03.K1), traced through methods'}),
    ('closure', 'vm', 'laythe_core::object::Closure', {}),
    ('method', 'vm', 'laythe_core::object::Method', {}),
    ('fun', 'vm', 'laythe_core::object::Fun', {}),
    ('ly_box', 'vm', 'laythe_core::object::LyBox', {}),
    ('chunk', 'vm', 'laythe_core::chunk::Chunk', {}),
    ('module', 'vm', 'laythe_core::module::Module', {}),
    ('package', 'vm', 'laythe_core::module::Package', {}),
    ('import', 'vm', 'laythe_core::module::Import', {}),
    ('native_meta', 'vm', 'laythe_core::object::native::NativeMeta', {}),
    ('instance_header', 'vm', 'laythe_core::object::instance::header::Header', {}),
    ('fiber', 'vm', 'fiber::Fiber', {}),
    ('inline_cache', 'vm', 'cache::InlineCache', {}),
]


def _trace_fn(P, ty):
    c = P._method_cands(norm_ty(ty), 'Trace', 'trace')
    if len(c) != 1:
        c2 = [x for x in c if 'Trace' in str(x[1])]
        if len(c2) == 1:
            return c2[0][0]
        raise Unsupported(f'trace of {ty}: {len(c)} candidates')
    return c[0][0]


def _mk(suffix, prog, ty, skip):
    @obligation('C05.K1.trace_' + suffix, 'C05', programs=(prog,))
    def ob(res, tier):
        _tier(tier)
        W = TraceWorld(prog)
        e, P = W.e, W.P
        f = _trace_fn(P, ty)
        res.bounds = {'type': ty, 'elements per container': f'0..{MAXN}', 'references': 'arbitrary identities'}
        res.assumptions = ['the traces of referenced objects are recorded, not followed (each has its own obligation); '
                           'mark bits are not modelled: a trace body may stop early only through its own mark() test, which is summarised as "not yet marked"'] + \
                          [f'{k}: {v}' for k, v in skip.items()]

        def path(e):
            W.start(e)
            v = e.fresh(ty, 'subject')
            out = []
            W.leaves(e, v, ty, out, True, ty_head(ty))
            e.call(f, [Ref(Cell(v))])
            traced = e.path_state['traced']
            tv = e.path_state['traced_vecs']
            n = 0
            for cond, ident, where in out:
                if any(re.split(r'[.\[?<]', where)[1:2] == [k] for k in skip):
                    continue
                n += 1
                if isinstance(ident, tuple):
                    e.check(any(x is ident[1] for x in tv), f'trace of {ty_head(ty)}: the vector {where} is traced', {'where': where})
                    continue
                hit = z3.Or(*[ident == t for t in traced]) if traced else z3.BoolVal(False)
                e.check(z3.Implies(to_z3_bool(cond) if not isinstance(cond, bool) else z3.BoolVal(cond), hit),
                        f'trace of {ty_head(ty)}: every managed reference the object holds is traced', {'missing': where})
            return {'type': ty_head(ty), 'references': n, 'traced': len(traced)}
        results = e.explore(path)
        for r in results:
            if r.kind in ('oob', 'unreachable', 'ub', 'diverge', 'depth', 'panic'):
                res.fail(f'C05.K1:{suffix}:{r.kind}', f'trace of {ty}: path ends in {r.kind}: {str(r.info)[:200]}', {'path': str(r.info)})
        summarize_paths(res, e, results, lambda r: r.info if isinstance(r.info, dict) else None, key_prefix=f'C05.K1:{suffix}:', unwind_ok=False)
    return ob


for _s in SUBJECTS:
    _mk(*_s)


F46_SRC = ('fn make(n) {\n  class K { m() { return n; } }\n  return K();\n}\nfn call(o) { return o.m(); }\nlet first = make(0);\nlet tag = first.cls().str();\nprint(call(first));\n'
           'first = nil;\nlet i = 1;\nlet bad = 0;\nwhile i < 60 {\n  let o = make(i);\n  if o.cls().str() == tag {\n    let r = call(o);\n    if r != i { bad = bad + 1; }\n  }\n  i = i + 1;\n}\nprint(bad);\n')
F46_REPLAY = dict(kind='lay', source=F46_SRC, gc_stress=True, expect_stdout='0\n0\n')


@obligation('C05.K1.roots_vm', 'C05', programs=('vm',), also=('C13',))
def roots_vm(res, tier):
    """<Vm as TraceRoot>::trace: every managed reference the Vm holds is handed to a trace, except the fields listed as
    assumptions (redundant roots and the deliberately weak inline caches)"""
    skip = {'builtin': 'builtin classes and natives are symbols of the std / global modules, which are reached through packages (assumed, not checked)',
            'global_module': 'root module of the std package, reached through packages (assumed, not checked)',
            'current_fun': 'the function of the active call frame, reached through fiber.frames (assumed, not checked)',
            'gc': 'the allocator itself', 'io': 'no managed references', 'files': None}
    skip = {k: v for k, v in skip.items() if v}
    _tier(tier)
    W = TraceWorld('vm')
    e, P = W.e, W.P
    c = P._method_cands('vm::Vm', 'TraceRoot', 'trace')
    c = [x for x in c if 'TraceRoot' in str(x[1])] or c
    f = c[0][0]
    res.bounds = {'elements per container': f'0..{MAXN}', 'references': 'arbitrary identities'}
    res.assumptions = [f'{k}: {v}' for k, v in skip.items()]
    m = e.model
    m(r'^<(source::)?(files::)?VmFiles as (laythe_core::)?(managed::)?(\w+::)?Trace>::trace$', lambda e_, a, c_: e_.path_state['traced_vecs'].append('files') or UNIT)
    m(r'^<(laythe_core::)?(\w+::)*(Captures) as (laythe_core::)?(managed::)?(\w+::)?Trace>::trace$', lambda e_, a, c_: NotImplemented)
    m(r'^<(cache::)?InlineCache as (laythe_core::)?(managed::)?(\w+::)?Trace>::trace$', lambda e_, a, c_: e_.path_state['traced_vecs'].append('inline_cache') or UNIT)

    def path(e):
        W.start(e)
        v = e.fresh('vm::Vm', 'vm')
        out = []
        sd = P.struct_def('vm::Vm')
        for i, (nm, fty) in enumerate(sd.fields):
            if nm in skip or nm in ('files', 'root_dir', 'emitter', 'exit_code', 'ip'):
                continue
            if not W.may_hold_managed(fty):
                continue
            fv = v.field(e, i, fty).get(e)
            if nm == 'inline_cache':
                # the entries of one cache are C05.K1.trace_inline_cache's subject; here: every cache of the Vm is handed to its trace
                e.add_constraint(z3.ULE(fv.len, MAXN))
                e.path_state['n_caches'] = fv.len
                continue
            W.leaves(e, fv, fty, out, True, 'Vm.' + nm)
        e.call(f, [Ref(Cell(v))])
        traced = e.path_state['traced']
        n = 0
        for cond, ident, where in out:
            n += 1
            if isinstance(ident, tuple):
                continue
            hit = z3.Or(*[ident == t for t in traced]) if traced else z3.BoolVal(False)
            e.check(z3.Implies(to_z3_bool(cond) if not isinstance(cond, bool) else z3.BoolVal(cond), hit),
                    'roots of the Vm: every managed reference the Vm holds is traced', {'missing': where})
        e.check('files' in e.path_state['traced_vecs'], 'roots of the Vm: the source files are traced')
        ncache = sum(1 for x in e.path_state['traced_vecs'] if x == 'inline_cache')
        e.check(e.path_state.get('n_caches') is not None and e.is_valid(e.path_state['n_caches'] == ncache),
                'roots of the Vm: every inline cache is traced (its entries name classes and methods by address)', {'missing': 'Vm.inline_cache', 'traced': ncache})
        return {'references': n, 'traced': len(traced)}
    results = e.explore(path)
    for r in results:
        for lab, ok, info in list(r.checks):
            if not ok and 'inline_cache' in str(info):
                res.fail('C05.K1:roots_vm:the inline caches name classes and methods nothing keeps alive',
                         'the Vm does not trace its inline caches: an entry outlives the class it names, and once a new class is allocated at the same address the site '
                         'hits the stale entry and calls the collected method', info, replay=F46_REPLAY)
                r.checks.remove((lab, ok, info))
        if r.kind in ('oob', 'unreachable', 'ub', 'diverge', 'depth', 'panic'):
            res.fail(f'C05.K1:roots_vm:{r.kind}', f'Vm roots: path ends in {r.kind}: {str(r.info)[:200]}', {'path': str(r.info)})
    summarize_paths(res, e, results, lambda r: r.info if isinstance(r.info, dict) else None, key_prefix='C05.K1:roots_vm:', unwind_ok=False)


def _all_trace_impls(P):
    """[(file, line, type name)] of every non-generic, non-macro `impl Trace for T` in the three crates"""
    out = []
    for rel, src in P.items.files.items():
        for m in re.finditer(r'^impl\s+Trace\s+for\s+(\w+)\s*\{', src, re.M):
            line = src.count('\n', 0, m.start()) + 1
            out.append((rel, line, m.group(1)))
    return sorted(out)


DEDICATED = {'CallFrame', 'ChannelQueue', 'ChannelWaiter', 'Channel', 'Class', 'Closure', 'Method', 'Fun', 'LyBox', 'Chunk', 'Module', 'Package',
             'Import', 'NativeMeta', 'Fiber'}
# fields the property does not require to be traced: each is redundant by the invariant named (stated as assumptions in the evidence)
SWEEP_SKIP = {
    'current': 'the current element of an iterator state is mirrored in the owning Enumerator.current, which is traced (Enumerator::next copies it before anything can allocate)',
    'error': 'error classes are symbols of the std modules and stay reachable through the packages root',
    ('ClassAttributes', 'name'): 'the class name is also an identifier constant of the chunk under construction (ChunkBuilder constants are traced)',
    ('VmFiles', 'name_map'): 'its keys are the names of the files in `files`, each traced through VmFile',
}
SWEEP_EXCLUDE = {'BuiltIn': 'never used as a root: <Vm as TraceRoot>::trace does not visit `builtin` (see C05.K1.roots_vm)', 'BuiltInPrimitives': 'as BuiltIn',
                 'BuiltInErrors': 'as BuiltIn', 'BuiltInDependencies': 'as BuiltIn'}
LEAF_HANDLES = {'Value', 'Tuple', 'List', 'Instance', 'LyStr', 'ObjectRef', 'Captures'}     # references themselves (recorded, not followed)


@obligation('C05.K1.trace_sweep', 'C05', programs=('vm',))
def trace_sweep(res, tier):
    """the same completeness obligation for every other hand-written `impl Trace for T` found in the sources of the three crates
    (iterator states of the standard library, builtin tables, signatures, builders, source files): types whose values cannot be
    encoded are listed as outside, the rest must trace every managed reference they hold"""
    _tier(tier)
    W0 = TraceWorld('vm')
    P = W0.P
    impls = [(rel, line, nm) for rel, line, nm in _all_trace_impls(P) if nm not in DEDICATED and nm not in LEAF_HANDLES and nm not in SWEEP_EXCLUDE and not rel.endswith('instance/header.rs')]
    res.assumptions = [f'{k}: {v}' for k, v in list(SWEEP_SKIP.items()) + list(SWEEP_EXCLUDE.items())]
    done, outside = [], []
    res.bounds = {'elements per container': f'0..{MAXN}'}
    for rel, line, nm in impls:
        W = TraceWorld('vm')
        e = W.e
        cands = [f for f in P.fns if f.name.endswith('::trace') and f'<impl at {rel}:{line}:' in f.name]
        sdc = [d for d in P.items.structs.get(nm, []) if d.file == rel]
        if len(cands) != 1 or len(sdc) != 1:
            outside.append(f'{nm} ({rel}): impl or definition not located')
            continue
        f, sd = cands[0], sdc[0]
        modpath = rel.split('/src/')[1][:-3].replace('/mod', '').replace('/', '::')
        ty = modpath + '::' + nm

        def path(e, ty=ty, f=f, nm=nm, sd=sd):
            W.start(e)
            v = Struct(norm_ty(ty), None, NameBacking('subject'))
            out = []
            for i, (fn_, fty) in enumerate(sd.fields):
                if not W.may_hold_managed(fty) or norm_ty(fty).startswith('*'):
                    continue
                if fn_ in SWEEP_SKIP or (nm, fn_) in SWEEP_SKIP:
                    continue
                W.leaves(e, v.field(e, i, fty).get(e), fty, out, True, f'{nm}.{fn_ or i}')
            e.call(f, [Ref(Cell(v))])
            traced = e.path_state['traced']
            tv = e.path_state['traced_vecs']
            for cond, ident, where in out:
                if isinstance(ident, tuple):
                    e.check(any(x is ident[1] for x in tv), f'trace of {nm}: the vector {where} is traced')
                    continue
                hit = z3.Or(*[ident == t for t in traced]) if traced else z3.BoolVal(False)
                e.check(z3.Implies(to_z3_bool(cond) if not isinstance(cond, bool) else z3.BoolVal(cond), hit),
                        f'trace of {nm}: every managed reference the object holds is traced', {'missing': where})
            if not out:
                e.check(True, f'trace of {nm}: holds no managed reference')
            return {'type': nm, 'references': len(out)}
        try:
            results = e.explore(path)
        except Unsupported as ex:
            outside.append(f'{nm} ({rel}): {str(ex)[:120]}')
            continue
        bad = [r for r in results if r.kind == 'unsupported']
        if bad:
            outside.append(f'{nm} ({rel}): {str(bad[0].info)[:160]}')
            continue
        for r in results:
            if r.kind in ('oob', 'unreachable', 'ub', 'diverge', 'depth', 'panic'):
                res.fail(f'C05.K1:sweep:{nm}:{r.kind}', f'trace of {nm}: path ends in {r.kind}: {str(r.info)[:200]}', {'path': str(r.info)})
        summarize_paths(res, e, results, lambda r: r.info if isinstance(r.info, dict) else None, key_prefix=f'C05.K1:sweep:', unwind_ok=False)
        done.append(nm)
    res.bounds['types decided'] = done
    res.outside = (res.outside or []) + ['not encoded: ' + x for x in outside]


@obligation('C05.K1.roots_compiler', 'C05', programs=('vm',))
def roots_compiler(res, tier):
    """<Compiler as TraceRoot>::trace (the root set while a compilation allocates): every managed reference the compiler holds is
    handed to a trace (the enclosing compilers / the Vm through `enclosing` / `root_trace`), except the fields listed as assumptions"""
    skip = {'gc': 'the allocator itself', 'enclosing': 'followed by the trace itself (the chain of enclosing compilers ends in root_trace, the Vm)',
            'root_trace': 'the context the compilation was started from (the Vm: C05.K1.roots_vm)',
            'captures': 'capture indices (bytes), no managed references', 'module_table': 'symbol tables borrow the source text, no managed references',
            'local_tables': 'as module_table', 'locals': 'references into the symbol tables, no managed references', 'errors': 'diagnostics own their strings',
            'label_emitter': 'a counter', 'cache_id_emitter': 'counters', 'module_symbol_offsets': 'borrowed names and numbers'}
    global MAXN
    _tier(tier)
    MAXN = 1        # the compiler holds a dozen containers; one element each shows whether the element is traced
    W = TraceWorld('vm')
    e, P = W.e, W.P
    e.model(r'^<dyn (laythe_core::)?(managed::)?(\w+::)?TraceRoot as (laythe_core::)?(managed::)?(\w+::)?TraceRoot>::trace$', lambda e_, a, c_: UNIT)
    c = P._method_cands('compiler::Compiler', 'TraceRoot', 'trace')
    c = [x for x in c if 'TraceRoot' in str(x[1])] or c
    if not c:
        res.inconclusive('<Compiler as TraceRoot>::trace not located')
        return
    f = c[0][0]
    res.bounds = {'elements per container': f'0..{MAXN}', 'references': 'arbitrary identities'}
    res.assumptions = [f'{k}: {v}' for k, v in skip.items()]
    ed_opt = P.enum_def('Option')

    def path(e):
        W.start(e)
        v = e.fresh('compiler::Compiler', 'compiler')
        out = []
        sd = P.struct_def('compiler::Compiler')
        ix = {n: i for i, (n, _) in enumerate(sd.fields)}
        v.f[ix['enclosing']] = Cell(EnumV('Option<NonNull<Compiler>>', 0, None, None, ed_opt))
        for i, (nm, fty) in enumerate(sd.fields):
            if nm in skip:
                continue
            if not W.may_hold_managed(fty):
                continue
            W.leaves(e, v.field(e, i, fty).get(e), fty, out, True, 'Compiler.' + nm)
        e.call(f, [Ref(Cell(v))])
        traced = e.path_state['traced']
        n = 0
        for cond, ident, where in out:
            n += 1
            if isinstance(ident, tuple):
                continue
            hit = z3.Or(*[ident == t for t in traced]) if traced else z3.BoolVal(False)
            e.check(z3.Implies(to_z3_bool(cond) if not isinstance(cond, bool) else z3.BoolVal(cond), hit),
                    'roots of a compilation: every managed reference the compiler holds is traced', {'missing': where})
        return {'references': n, 'traced': len(traced)}
    results = e.explore(path)
    for r in results:
        if r.kind in ('oob', 'unreachable', 'ub', 'diverge', 'depth', 'panic'):
            res.fail(f'C05.K1:roots_compiler:{r.kind}', f'compiler roots: path ends in {r.kind}: {str(r.info)[:200]}', {'path': str(r.info)})
    summarize_paths(res, e, results, lambda r: r.info if isinstance(r.info, dict) else None, key_prefix='C05.K1:roots_compiler:', unwind_ok=False)
