"""C04 — exceptions transfer control to the right handler and preserve program state (kernels)."""
import re
import z3
from vfw.core import obligation, get_program, summarize_paths
from mirsym.engine import Engine
from mirsym.values import *
from mirsym.tys import *
from .vmabs import VmWorld, AbsObj, AbsUVec, kind_of, object_of
from .c01 import ValView, END_KINDS, _signal_is, VALUE

is_subclass = z3.Function('is_subclass', z3.BitVecSort(64), z3.BitVecSort(64), z3.BoolSort())
class_of = z3.Function('class_of', z3.BitVecSort(64), z3.BitVecSort(64))

HANDLER = 'fiber::exception_handler::ExceptionHandler'


def _world(P, extra_exec=()):
    e = Engine(P, loop_bound=6, timeout_s=120, max_depth=60)
    W = VmWorld(e, P)
    W.havoc_objects(e)
    # executed for real in this file (override the blanket summaries)
    e.havoc = [rx for rx in e.havoc if 'error_while_handling' not in rx.pattern]
    e.allow_havoc(r'^(fiber::)?Fiber::(add_used_channel|waiter|get_runnable|block|sleep|unblock|activate|complete|split|ensure_stack|pause_unwind|error_backtrace)$')
    m = e.model
    okind = P.enum_def('laythe_core::object::ObjectKind')

    def obj_id(v):
        return object_of(e, v).id

    m(r'^(laythe_core::)?(object::)?(class::)?Class::is_subclass$', lambda e_, a, c: is_subclass(obj_id(a[0]), obj_id(a[1])))

    def m_inst_class(e_, a, c):
        cid = class_of(obj_id(a[0]))
        e_.add_constraint(kind_of(cid) == okind.vindex['Class'])
        return AbsObj(cid, 'ObjRef<Class>')
    m(r'^(laythe_core::)?(object::)?(instance::)?Instance::class$', m_inst_class)
    return e, W


def _setup_handlers(e, W, st, P):
    """give the fiber a symbolic handler stack and error slot"""
    nh = z3.BitVec('nhandlers', 64)
    hcap = z3.BitVec('hcap', 64)
    e.assume(z3.And(z3.ULE(nh, hcap), z3.ULT(hcap, 1 << 16)))
    hseq = e.fresh_seq(HANDLER, NameBacking('handlers'), hcap)
    uv = AbsUVec(hseq, nh)
    st.fiber.f[W.fib_idx['exception_handlers']] = Cell(uv)
    st.handlers = uv
    st.nh0 = nh
    st.handlers_arr0 = hseq.arr
    # representation invariant: a fiber is Unwinding only while the clauses of its innermost handler are evaluated (between the
    # unwinder's jump to the catch label and FinishUnwind / ContinueUnwind / an error raised there), so that handler exists
    fsd = P.struct_def('fiber::Fiber')
    si = fsd.index_of('state')
    stv = st.fiber.field(e, si, fsd.fields[si][1]).get(e)
    sed = P.enum_def('fiber::FiberState')
    if not isinstance(stv.tag, int):
        e.assume(z3.Implies(stv.tag == sed.vindex['Unwinding'], z3.UGE(nh, 1)))
    return uv


@obligation('C04.K3.op_check_handler', 'C04', programs=('vm',))
def k3_check_handler(res, tier):
    """op_check_handler: continues into the catch body exactly when the error's class is a subclass of the clause's
    class, otherwise jumps to the next clause; the class operand is dropped on both outcomes; a non-Error filter raises
    a TypeError with the handler deactivated"""
    P = get_program('vm')
    e, W = _world(P)
    f = P.lookup('vm::Vm::op_check_handler')
    err_key = W.field_key('vm::Vm', ['builtin', 'errors', 'error']) + '.id'
    type_key = W.field_key('vm::Vm', ['builtin', 'errors', 'type_']) + '.id'
    res.bounds = {'operand': 'every 16-bit distance; any value on top of the stack; any error instance'}
    res.assumptions = ['Class::is_subclass and Instance::class are uninterpreted (C03 decides them)']

    def path(e):
        st = W.fresh_state(e)
        _setup_handlers(e, W, st, P)
        e.assume(z3.UGE(st.nh0, 1))   # CheckHandler only runs in a catch chain entered by unwinding to a live handler
        top = ValView(e, P, st.stack.load(e, z3.simplify(st.sp - 1)))
        e.assume(z3.Not(top.is_undef))
        outcome, sig = 'ok', None
        try:
            sig = e.call(f, [Ref(st.vm_cell)])
        except PathEnd as pe:
            if pe.kind not in END_KINDS:
                raise
            outcome = pe.kind
        sp2, ip2 = W.sp(e), W.ip(e)
        jump = z3.ZeroExt(48, z3.Concat(z3.Select(st.code.arr, st.ip + 1), z3.Select(st.code.arr, st.ip)))
        errfield = st.fiber.f.get(W.fib_idx['error'])
        err = errfield.get(e) if errfield is not None else None
        is_class = top.is_kind(P, 'Class')
        if outcome == 'internal_error':
            # "Fiber error not present": only when no error is in flight (unreachable after an unwind)
            e.check(isinstance(err, EnumV) and (err.tag == 0 if isinstance(err.tag, int) else not e.sat(err.tag != 0)),
                    'internal error only without an in-flight error')
            return {'case': 'no error in flight'}
        e.assume(err.tag == 1 if not isinstance(err.tag, int) else True)
        inst = err.payload['Some'][0].get(e) if 'Some' in err.payload and 0 in err.payload['Some'] else err.field(e, 'Some', 0, 'Instance').get(e)
        err_class = class_of(inst.id)
        errbase = z3.BitVec(err_key, 64)
        if outcome == 'ok':
            e.check(_signal_is(sig, 'Ok'), 'signals Ok')
            cid = top.obj.id
            e.check(z3.And(is_class, is_subclass(cid, errbase)), 'a clause is entered/skipped only for an Error subclass filter')
            e.check(ip2 == z3.If(is_subclass(err_class, cid), st.ip + 2, st.ip + 2 + jump),
                    'enters the clause exactly when the error class is a subclass of the clause class, else jumps to the next clause')
            e.check(sp2 == st.sp - 1, 'the class operand is dropped on both outcomes')
            e.check(st.handlers.len == st.nh0, 'handler stays active while clauses are tested')
            return {'case': 'filter evaluated'}
        o = e.path_state['outcome']
        e.check(o[0] == 'runtime_error' and o[1] == type_key, 'a non-Error filter raises TypeError', {'outcome': str(o)})
        e.check(z3.Not(z3.And(is_class, is_subclass(top.obj.id, errbase))) if e.sat(is_class) else True,
                'TypeError only for a filter that is not an Error subclass')
        e.check(st.handlers.len == st.nh0 - 1, 'the handler is deactivated before the TypeError is raised')
        return {'case': 'bad filter'}
    results = e.explore(path)
    _panics(res, results, 'C04.K3.op_check_handler')
    summarize_paths(res, e, results, lambda r: r.info if isinstance(r.info, dict) else None, key_prefix='C04.K3:check_handler:', unwind_ok=False)


def _panics(res, results, oid, benign=('Attempted to pop an empty vec',)):
    for r in results:
        if r.kind in ('panic', 'oob', 'unreachable', 'ub', 'diverge', 'depth'):
            if any(b in str(r.info) for b in benign):
                continue
            res.fail(f'{oid}:{r.kind}', f'path ends in {r.kind}: {str(r.info)[:200]}', {'path': str(r.info)})


@obligation('C04.K3.op_raise', 'C04', programs=('vm',))
def k3_raise(res, tier):
    """op_raise: an instance of an Error subclass becomes the fiber's in-flight error (that very instance); anything
    else raises the documented RuntimeError; the operand is consumed"""
    P = get_program('vm')
    e, W = _world(P)
    f = P.lookup('vm::Vm::op_raise')
    err_key = W.field_key('vm::Vm', ['builtin', 'errors', 'error']) + '.id'
    rt_key = W.field_key('vm::Vm', ['builtin', 'errors', 'runtime']) + '.id'
    # set_error executed for real
    e.models = [mm for mm in e.models if 'set_error' not in mm[2]]
    res.bounds = {'operand': 'every value'}

    def path(e):
        st = W.fresh_state(e)
        _setup_handlers(e, W, st, P)          # incl. the invariant: Unwinding only while a handler's clauses are evaluated
        top = ValView(e, P, st.stack.load(e, z3.simplify(st.sp - 1)))
        e.assume(z3.Not(top.is_undef))
        outcome, sig = 'ok', None
        try:
            sig = e.call(f, [Ref(st.vm_cell)])
        except PathEnd as pe:
            if pe.kind not in END_KINDS:
                raise
            outcome = pe.kind
        sp2, ip2 = W.sp(e), W.ip(e)
        is_inst = top.is_kind(P, 'Instance')
        errbase = z3.BitVec(err_key, 64)
        e.check(z3.And(sp2 == st.sp - 1, ip2 == st.ip), 'the raised value is popped, no operand bytes')
        if outcome == 'ok':
            e.check(_signal_is(sig, 'RuntimeError'), 'signals RuntimeError so that unwinding starts')
            e.check(z3.And(is_inst, is_subclass(class_of(top.obj.id), errbase)), 'only instances of Error subclasses are raised as they are')
            err = st.fiber.f[W.fib_idx['error']].get(e)
            ok = isinstance(err, EnumV) and err.variant_name() == 'Some'
            e.check(ok, 'the fiber error is set')
            if ok:
                inst = err.payload['Some'][0].get(e)
                e.check(inst.id == top.obj.id, 'the in-flight error is the raised instance itself')
            return {'case': 'raised'}
        o = e.path_state['outcome']
        e.check(o[0] == 'runtime_error' and o[1] == rt_key and o[2] == 'Can only raise an instance of Error', 'documented RuntimeError for a non-Error operand', {'o': str(o)})
        e.check(z3.Not(z3.And(is_inst, is_subclass(class_of(top.obj.id), errbase))) if e.sat(is_inst) else True, 'RuntimeError only for non-Error operands')
        return {'case': 'not an error'}
    results = e.explore(path)
    _panics(res, results, 'C04.K3.op_raise')
    summarize_paths(res, e, results, lambda r: r.info if isinstance(r.info, dict) else None, key_prefix='C04.K3:raise:', unwind_ok=False)


@obligation('C04.K3.handler_stack_ops', 'C04', programs=('vm',))
def k3_handler_ops(res, tier):
    """op_pop_handler / op_continue_unwind pop exactly the innermost handler; op_get_error pushes the in-flight error;
    Fiber::push_exception_handler records (offset, current frame depth, slot depth)"""
    P = get_program('vm')
    res.bounds = {'handlers': 'any number < 2^16', 'frames': '1..255'}
    for opname in ('op_pop_handler', 'op_continue_unwind', 'op_get_error', 'op_push_handler'):
        e, W = _world(P)
        e.havoc = [rx for rx in e.havoc if 'push_exception_handler' not in rx.pattern]
        e.allow_havoc(r'^(fiber::)?Fiber::(add_used_channel|waiter|get_runnable|block|sleep|unblock|activate|complete|split|ensure_stack|pause_unwind|error_backtrace|finish_unwind)$',
                      r'^(laythe_core::)?(object::)?(\w+::)*(Fun|Chunk)::(max_slots)$')
        W.summarise_calls(e)
        e.models = [mm for mm in e.models if 'push_exception_handler' not in mm[2]]
        f = P.lookup('vm::Vm::' + opname)

        def path(e, opname=opname):
            st = W.fresh_state(e)
            uv = _setup_handlers(e, W, st, P)
            if opname in ('op_pop_handler', 'op_continue_unwind'):
                e.assume(z3.UGE(st.nh0, 1))        # the lowering pops only handlers it pushed (C04.C1)
            outcome, sig = 'ok', None
            try:
                sig = e.call(f, [Ref(st.vm_cell)])
            except PathEnd as pe:
                if pe.kind not in END_KINDS:
                    raise
                outcome = pe.kind
            sp2, ip2 = W.sp(e), W.ip(e)
            if opname in ('op_pop_handler', 'op_continue_unwind'):
                e.check(outcome == 'ok', f'{opname}: total')
                e.check(uv.len == st.nh0 - 1, f'{opname}: exactly the innermost handler is popped')
                q = z3.BitVec('q_frame', 64)
                e.check(z3.Implies(z3.ULT(q, st.nh0 - 1), z3.Select(uv.seq.arr, q) == z3.Select(st.handlers_arr0, q)), f'{opname}: outer handlers untouched')
                e.check(z3.And(sp2 == st.sp, ip2 == st.ip), f'{opname}: stack and ip untouched')
                e.check(_signal_is(sig, 'Ok' if opname == 'op_pop_handler' else 'RuntimeError'), f'{opname}: signal')
            elif opname == 'op_get_error':
                if outcome == 'internal_error':
                    return {'op': opname, 'case': 'no error in flight'}
                err = st.fiber.f[W.fib_idx['error']].get(e)
                e.check(sp2 == st.sp + 1, 'op_get_error: pushes one value')
                top = ValView(e, P, W.stack_at(e, z3.simplify(sp2 - 1)))
                inst = err.payload['Some'][0].get(e) if 'Some' in err.payload and 0 in err.payload['Some'] else err.field(e, 'Some', 0, 'Instance').get(e)
                e.check(z3.And(top.is_obj, top.obj.id == inst.id), 'op_get_error: the pushed value is the in-flight error')
            else:
                e.check(outcome == 'ok', 'op_push_handler: total')
                e.check(uv.len == st.nh0 + 1, 'op_push_handler: one handler pushed')
                h = uv.seq.load(e, st.nh0)
                sd = P.struct_def(HANDLER)
                off = h.field(e, sd.index_of('offset'), 'usize').get(e)
                depth = h.field(e, sd.index_of('call_frame_depth'), 'usize').get(e)
                slot = h.field(e, sd.index_of('slot_depth'), 'usize').get(e)
                op_slot = z3.ZeroExt(48, z3.Concat(z3.Select(st.code.arr, st.ip + 1), z3.Select(st.code.arr, st.ip)))
                op_jump = z3.ZeroExt(48, z3.Concat(z3.Select(st.code.arr, st.ip + 3), z3.Select(st.code.arr, st.ip + 2)))
                e.check(off == st.ip + 4 + op_jump, 'op_push_handler: handler offset = ip after the operands + distance (relative to the chunk start)')
                e.check(slot == op_slot, 'op_push_handler: slot depth operand stored unchanged')
                e.check(depth == st.nframes, 'op_push_handler: handler remembers the current call depth')
                e.check(z3.And(sp2 == st.sp, ip2 == st.ip + 4), 'op_push_handler: consumes 4 operand bytes, stack untouched')
            return {'op': opname}
        results = e.explore(path)
        _panics(res, results, 'C04.K3.' + opname, benign=('Offset past end', 'Slot offset more', 'Attempted to pop an empty vec'))
        summarize_paths(res, e, results, lambda r: r.info if isinstance(r.info, dict) else None, key_prefix=f'C04.K3:{opname}:', unwind_ok=False)


F50_SRC = ('fn cb(x) { try { raise Error("a"); } catch e: RuntimeError { print("wrong"); } return x; }\ntry { print([1].iter().map(cb).into(List.collect)); }\n'
           'catch e: Error { print("caught", e.message); }\nprint("done");\n')
F50_REPLAY = dict(kind='lay', source=F50_SRC, expect_stdout='caught a\ndone\n')
F35_SRC = ('fn f(x) { raise Error("stop"); }\ntry {\n  [1, 2].iter().map(f).list();\n} catch e: Error {\n  print("caught");\n}\nprint("after");\n')
F35_REPLAY = dict(kind='lay', source=F35_SRC, expect_stdout='caught\nafter\n', bad_exit=[1])


@obligation('C04.K2.stack_unwind', 'C04', programs=('vm',))
def k2_unwind(res, tier):
    """Fiber::stack_unwind from an arbitrary fiber: picks the innermost handler, refuses handlers below a native boundary,
    sets the current frame to the handler's frame, stack_top = frame start + slot depth, ip = chunk start + offset"""
    P = get_program('vm')
    e, W = _world(P)
    f = P.lookup('fiber::Fiber::stack_unwind')
    W.summarise_calls(e)
    res.bounds = {'handlers': 'any number < 2^16', 'frames': '1..255', 'bottom_frame': 'None or any depth'}
    res.assumptions = ['representation invariant: 1 <= handler.call_frame_depth <= frames.len()  (handlers are pushed with the current depth '
                       'and popped on every exit of their try: C04.C1; known finding F5 violates it for nested try exits)',
                       'pause_unwind (backtrace bookkeeping) is summarised: C18.K2']

    def path(e):
        st = W.fresh_state(e)
        uv = _setup_handlers(e, W, st, P)
        bottom = e.fresh('std::option::Option<usize>', 'bottom')
        sd = P.struct_def(HANDLER)
        has = e.fork_bool(z3.UGE(st.nh0, 1))
        if has:
            h = uv.seq.load(e, z3.simplify(st.nh0 - 1))
            hoff = h.field(e, sd.index_of('offset'), 'usize').get(e)
            hdepth = h.field(e, sd.index_of('call_frame_depth'), 'usize').get(e)
            hslot = h.field(e, sd.index_of('slot_depth'), 'usize').get(e)
            e.assume(z3.And(z3.UGE(hdepth, 1), z3.ULE(hdepth, st.nframes)))
            e.assume(z3.ULT(hoff, st.code_len))
            e.assume(z3.ULT(hslot, 1 << 16))
        ctx = Ref(st.vm_cell)
        sdef = P.enum_def('fiber::FiberState')
        was_unwinding = e.fork_bool(z3.Bool('search_continues_after_ContinueUnwind'))
        if was_unwinding and not has:
            pass        # ContinueUnwind popped the last handler: allowed
        st.fiber.f[W.fib_idx['state']] = Cell(EnumV('fiber::FiberState', sdef.vindex['Unwinding' if was_unwinding else 'Running'], None, None, sdef))
        r = e.call(f, [Ref(Cell(st.fiber)) if False else _fiber_ref(st), ctx, bottom])
        rn = r.variant_name() if isinstance(r, EnumV) else None
        btag = bottom.tag if isinstance(bottom.tag, int) else e.concretize(bottom.tag, [0, 1])
        bval = bottom.field(e, 'Some', 0, 'usize').get(e) if btag == 1 else None
        def stopped_state():
            # the search ends at the native boundary and native code goes on running: the error it hands back (set_error) must meet a
            # fiber that is no longer "evaluating the clauses of a handler", or set_error would discard a handler of the caller (C04.K6)
            stf = st.fiber.f[W.fib_idx['state']].get(e) if W.fib_idx['state'] in st.fiber.f else None
            e.check(isinstance(stf, EnumV) and isinstance(stf.tag, int) and stf.variant_name() != 'Unwinding',
                    'an unwind stopped at the native boundary leaves the fiber out of the Unwinding state (the handlers beyond the boundary are not being evaluated)',
                    {'state_after': stf.variant_name() if isinstance(stf, EnumV) and isinstance(stf.tag, int) else 'symbolic'})
        if not has:
            e.check(rn == ('UnwindStopped' if btag == 1 else 'Unhandled'), 'without handlers: Unhandled, or UnwindStopped inside a native call')
            if rn == 'UnwindStopped':
                stopped_state()
            return {'case': 'no handler', 'result': rn}
        # the boundary: run_fun / run_method / runtime_error record frames.len() of the code that called into native code BEFORE the
        # callee frame is pushed (C18.K2.run_fun_signals decides that on the real run_fun); a handler registered by one of those
        # frames (call_frame_depth <= boundary) belongs to the caller and must be left to it, also when the native has no frame
        # of its own (stack-less natives: depth == boundary is the frame that invoked the native)
        if btag == 1 and e.fork_bool(z3.ULE(hdepth, bval)):
            e.check(rn == 'UnwindStopped', 'a handler of the code that called into native code (at or below the native boundary) is not used by the nested run',
                    {'handler_depth_equals_boundary': e.is_valid(hdepth == bval)})
            if rn == 'UnwindStopped':
                stopped_state()
            return {'case': 'at or below native boundary', 'result': rn}
        e.check(rn == 'PotentiallyHandled', 'the innermost handler is chosen')
        frame_ptr = e.as_seqptr(e, st.fiber.f[W.fib_idx['frame']].get(e))
        e.check(isinstance(frame_ptr, SeqPtr) and frame_ptr.seq is st.frames, 'current frame pointer points into the frames vector')
        e.check(frame_ptr.idx == hdepth - 1, 'current frame becomes the frame that registered the handler')
        fr_el = st.frames.load(e, z3.simplify(hdepth - 1))
        cf = W.cf_idx
        start = fr_el.field(e, cf['stack_start'], '*mut laythe_core::value::Value').get(e)
        e.check(W.sp(e) == start.idx + hslot, 'stack top = frame start + recorded slot depth')
        ipp = fr_el.field(e, cf['ip'], '*const u8').get(e)
        e.check(ipp.idx == hoff, 'frame ip = chunk start + handler offset')
        e.check(uv.len == st.nh0, 'the handler stays registered until the clause decides')
        return {'case': 'handled', 'result': rn}
    results = e.explore(path)
    for r in results:
        for lab, ok, info in list(r.checks):
            if not ok and 'leaves the fiber out of the Unwinding state' in lab:
                res.fail('C04.K2:an unwind stopped at the native boundary leaves the fiber Unwinding',
                         'after a non-matching catch inside a native callback (ContinueUnwind) the nested search stops at the boundary with the fiber still Unwinding; '
                         'when the native hands the error on, set_error takes the caller\'s innermost handler for "the handler being evaluated" and discards it', info, replay=F50_REPLAY)
                r.checks.remove((lab, ok, info))
            if not ok and 'at or below the native boundary' in lab:
                res.fail('C04.K2:handler of the frame that invoked a stack-less native is run inside the nested execution',
                         'Fiber::stack_unwind accepts a handler whose call_frame_depth equals the native boundary: an error raised in a callback of a '
                         'stack-less native (iter.map(f).list()) is handled by the caller\'s catch while the native is still running; when the nested run '
                         'returns the error is delivered a second time', info, replay=F35_REPLAY)
                r.checks.remove((lab, ok, info))
    _panics(res, results, 'C04.K2.stack_unwind')
    summarize_paths(res, e, results, lambda r: r.info if isinstance(r.info, dict) else None, key_prefix='C04.K2:', unwind_ok=False)


def _fiber_ref(st):
    # &mut Fiber: reference to the fiber data inside its allocation
    return Ref(st.fiber_alloc_cell.v.f[1])


# ---------------------------------------------------------------------------------------------- K1 handler depth
@obligation('C04.K1.handler_depth', 'C04', programs=('vm',))
def k1_handler_depth(res, tier):
    """apply_stack_effects: the slot depth written into PushHandler is the depth the VM has at that point
    (callee slot + parameters + net effect of the preceding instructions); one inductive step from an arbitrary
    running depth plus the initial value"""
    P = get_program('vm')
    f = P.lookup('compiler::peephole::apply_stack_effects')
    INS = 'byte_code::SymbolicByteCode'
    ed = P.enum_def(INS)
    PH = ed.vindex['PushHandler']
    res.bounds = {'program': 'any length < 2^32; induction over positions', 'arity': 'any u8'}
    res.assumptions = ['instruction effects equal the VM behaviour (C06.K1)', 'a call enters the function with depth 1 + argc (C01.K5)']
    from mirsym.mir import parsed_block
    heads = [bb for bb in f.blocks if (lambda t: t[0] == 'call' and 'Iterator>::next' in t[2])(parsed_block(f, bb)[1])]
    if len(heads) != 1:
        raise Unsupported('apply_stack_effects: loop head not found')
    head = heads[0]
    fb_ty = 'laythe_core::object::FunBuilder'

    # (a) initial value: what the simulation assumes for the entry depth
    e = Engine(P, loop_bound=3, timeout_s=120)
    _fun_builder_models(e, P)

    def path0(e):
        n = z3.BitVec('n', 64)
        e.assume(z3.And(z3.UGE(n, 1), z3.ULT(n, 1 << 32)))
        prog = e.fresh_seq(INS, NameBacking('prog'), n)
        first = prog.load(e, bv(0, 64))
        e.assume(first.tag == PH)
        fbuild = e.fresh(fb_ty, 'fun_builder')
        arity = _arity_params(e, P, fbuild)

        def stop(eng, fr):
            if fr.visits[head] >= 2:
                raise PathEnd('stop', fr)
        e.bb_hooks[(f.key, head)] = stop
        try:
            e.call(f, [Ref(Cell(fbuild)), SliceRef(prog, bv(0, 64), None)])
        except PathEnd as pe:
            if pe.kind != 'stop':
                raise
        after = prog.load(e, bv(0, 64))
        after.tag = PH
        slots = after.field(e, 'PushHandler', 0, '(u16, byte_code::Label)').get(e).field(e, 0, 'u16').get(e)
        e.check(z3.ZeroExt(48, slots) == 1 + arity, 'PushHandler at function entry records callee slot + parameters',
                {'expected': '1 + number of parameters', 'written': str(z3.simplify(slots))})
        return {'case': 'entry depth'}
    results = e.explore(path0)
    for r in results:
        for label, ok, info in r.checks:
            if not ok:
                res.fail('C04.K1:handler depth ignores parameters', 'the handler slot depth starts from 1 regardless of the number of parameters',
                         info, replay=dict(kind='lay', source=F4_REPRO, expect_stdout='1\n'))
    _panics(res, results, 'C04.K1.entry')
    res.absorb(e)
    res.paths += len(results)
    res.checks += sum(len(r.checks) for r in results)
    res.nontrivial += sum(1 for r in results if r.checks)
    for r in results:
        if r.kind == 'unsupported':
            res.inconclusive('unsupported: ' + str(r.info)[:300])

    # (b) inductive step: from any position and running depth
    e2 = Engine(P, loop_bound=3, timeout_s=120)
    _fun_builder_models(e2, P)
    feff = P.lookup('byte_code::SymbolicByteCode::stack_effect')

    def path1(e):
        n = z3.BitVec('n', 64)
        k = z3.BitVec('k', 64)
        e.assume(z3.And(z3.ULT(k, n), z3.ULT(n, 1 << 32)))
        prog = e.fresh_seq(INS, NameBacking('prog'), n)
        arr0 = prog.arr
        slots0 = z3.BitVec('slots', 32)
        e.assume(z3.And(slots0 >= 0, slots0 < (1 << 15)))   # depths beyond 2^15 are the acknowledged TODO (outside the claim)
        fbuild = e.fresh(fb_ty, 'fun_builder')
        ins0 = prog.load(e, k)
        it = e.SliceIter(SliceRef(prog, bv(0, 64), None), k, True)

        def stop(eng, fr):
            if fr.visits[head] >= 2:
                raise PathEnd('stop', fr)
        e.bb_hooks[(f.key, head)] = stop
        slot_l = [kk for kk, t in f.locals.items() if t == 'i32' and f.debug.get('slots') == kk]
        iter_l = [f.debug.get('iter')] if re.match(r'^_\d+$', f.debug.get('iter') or '') else []
        if not slot_l or not iter_l:
            raise Unsupported('apply_stack_effects: locals not identified')
        params = z3.BitVec('parameters', 32)
        e.assume(z3.And(params >= 0, params <= 255))
        pl = f.debug.get('parameters')
        preset = {slot_l[0]: slots0, iter_l[0]: it}
        # CFG-aware simulation state (present since the fix of the linear simulation)
        ft_l = f.debug.get('falls_through')
        ls_l = f.debug.get('label_slots')
        falls = None
        lslots = None
        if ft_l and re.match(r'^_\d+$', ft_l):
            falls = z3.Bool('falls_through')
            preset[ft_l] = falls
        if ls_l and re.match(r'^_\d+$', ls_l):
            nl = z3.BitVec('n_labels', 64)
            e.assume(z3.ULT(nl, 1 << 16))
            lslots = e.fresh_seq('std::option::Option<i32>', NameBacking('label_slots'), nl)
            preset[ls_l] = lslots
        if pl and re.match(r'^_\d+$', pl):
            preset[pl] = params
        else:
            params = bv(0, 32)
        # reachability flag (present since the repair of the simulation on unreachable loops): any value
        rc_l = f.debug.get('reachable')
        reach = z3.BoolVal(True)
        if rc_l and re.match(r'^_\d+$', rc_l):
            reach = z3.Bool('reachable')
            preset[rc_l] = reach
        try:
            e.exec_fn(f, [Ref(Cell(fbuild)), SliceRef(prog, bv(0, 64), None)], 0, None, start_bb=head,
                      preset=preset)
        except PathEnd as pe:
            if pe.kind != 'stop':
                raise
            fr = pe.info
        else:
            raise Unsupported('loop exit with an instruction pending')
        slots1 = fr.locals[slot_l[0]].get(e)
        eff = e.call(feff, [Ref(Cell(ins0))])
        start = slots0
        LBL = ed.vindex['Label']
        if falls is not None and lslots is not None and e.sat(ins0.tag == LBL if not isinstance(ins0.tag, int) else ins0.tag == LBL):
            is_label = (ins0.tag == LBL) if not isinstance(ins0.tag, int) else z3.BoolVal(ins0.tag == LBL)
            lab = z3.ZeroExt(32, ins0.field(e, 'Label', 0, 'byte_code::Label').get(e).field(e, 0, 'u32').get(e))
            from mirsym.values import TermBacking
            elem = z3.Select(lslots.arr, lab)
            otag = TermBacking(elem, lslots.tyname).child('tag').leaf(e, z3.BitVecSort(64))
            oval = TermBacking(elem, lslots.tyname).child('Some').child(0).leaf(e, z3.BitVecSort(32))
            e.add_constraint(z3.ULT(otag, 2))
            start = z3.If(z3.And(is_label, z3.Or(z3.Not(falls), z3.Not(reach)), z3.ULT(lab, lslots.len), otag == 1), oval, slots0)
            e.assume(z3.And(oval >= 0, oval < (1 << 15)))
        e.check(slots1 == start + eff, 'running depth advances by the instruction effect (a label behind an unconditional transfer takes the depth of its jump)')
        after = prog.load(e, k)
        is_ph = ins0.tag == PH
        if e.fork_bool(is_ph):
            after.tag = PH
            w = after.field(e, 'PushHandler', 0, '(u16, byte_code::Label)').get(e)
            e.check(z3.ZeroExt(16, w.field(e, 0, 'u16').get(e)) == start + params,
                    'PushHandler receives the depth before the instruction (plus the parameter slots)')
            ins0.tag = PH
            l0 = ins0.field(e, 'PushHandler', 0, '(u16, byte_code::Label)').get(e).field(e, 1, 'byte_code::Label').get(e).field(e, 0, 'u32').get(e)
            l1 = w.field(e, 1, 'byte_code::Label').get(e).field(e, 0, 'u32').get(e)
            e.check(l0 == l1, 'PushHandler keeps its catch label')
        else:
            e.check(z3.Select(prog.arr, k) == z3.Select(arr0, k), 'other instructions are not rewritten')
        q = z3.BitVec('q_frame', 64)
        e.check(z3.Implies(q != k, z3.Select(prog.arr, q) == z3.Select(arr0, q)), 'no other position is modified')
        ms = e.path_state.get('max_slots_updates', [])
        e.check(len(ms) == 1 and z3.is_true(z3.simplify(ms[0] == slots1)) if ms else False, 'max_slots is updated with the new running depth')
        return {'case': 'step'}
    results = e2.explore(path1)
    _panics(res, results, 'C04.K1.step', benign=('slots >= 0',))
    summarize_paths(res, e2, results, lambda r: r.info if isinstance(r.info, dict) else None, key_prefix='C04.K1:step:', unwind_ok=False)


F4_REPRO = """fn f(a, b) {
  try {
    raise Error('x');
  } catch e: Error {
  }
  print(a);
}
f(1, 2);
"""


def _fun_builder_models(e, P):
    def m_update(eng, a, c):
        eng.path_state.setdefault('max_slots_updates', []).append(a[1])
        return UNIT
    e.model(r'^(laythe_core::)?(object::)?(fun::)?FunBuilder::update_max_slots$', m_update)


def _arity_params(e, P, fbuild):
    """number of parameter slots a call places on the stack for this function: its fixed arity"""
    sd = P.struct_def('laythe_core::object::FunBuilder')
    ai = sd.index_of('arity')
    ar = fbuild.field(e, ai, sd.fields[ai][1]).get(e)
    ed = ar.edef
    e.assume(ar.tag == ed.vindex['Fixed'])
    ar.tag = ed.vindex['Fixed']
    n = ar.field(e, 'Fixed', 0, 'u8').get(e)
    return z3.ZeroExt(56, n)


# ---------------------------------------------------------------------------------------------- K5 raising preserves the frame
F36_SRC = 'fn f() { let a = 10; try { -nil; } catch e {} return a; }\nprint(f());\n'
F36_REPLAY = dict(kind='lay', source=F36_SRC, expect_stdout='10\n')


@obligation('C04.K5.runtime_error_preserves_stack', 'C04', programs=('vm',))
def k5_runtime_error(res, tier):
    """Vm::runtime_error / runtime_error_from_str (every error the VM itself raises: type errors, undefined properties, failed
    imports ...) with the construction of the error object summarised by the call protocol (callee and arguments are replaced by one
    result): when the error is handed to the unwinder every stack slot that was live before is unchanged and the stack top is where
    it was - the locals and temporaries of the raising frame keep their values"""
    P = get_program('vm')
    e = Engine(P, loop_bound=4, timeout_s=120, max_depth=40)
    W = VmWorld(e, P)
    W.havoc_objects(e)
    W.summarise_calls(e)
    # runtime_error itself is the subject: drop the summary VmWorld installs for it
    e.models = [m_ for m_ in e.models if 'runtime_error' not in m_[2]]
    f = P.lookup('vm::Vm::runtime_error')
    res.bounds = {'stack': 'any depth, any contents', 'error class': 'any', 'message': 'any'}
    res.assumptions = ['call protocol (C06.K2 / C01): a call with n arguments replaces the callee slot and the n argument slots by one result',
                       'ensure_stack keeps the contents (C06.K2.ensure_stack)']

    def path(e):
        st = W.fresh_state(e)
        sp0 = st.sp
        arr0 = st.stack.arr
        cls = AbsObj(z3.BitVec('error_class', 64), 'ObjRef<Class>')
        msg = AbsObj(z3.BitVec('message', 64), 'LyStr')
        outcome = None
        try:
            e.call(f, [Ref(st.vm_cell), cls, msg])
        except PathEnd as pe:
            if pe.kind != 'vm_error':
                raise
            outcome = e.path_state.get('outcome')
        if outcome == ('callee_error',):
            return {'case': 'the error class initialiser raised'}
        i = z3.BitVec('slot', 64)
        e.add_constraint(z3.ULT(i, sp0))
        e.check(z3.Select(st.stack.arr, i) == z3.Select(arr0, i), 'runtime_error: every live stack slot keeps its value while the error object is built',
                {'slot_is_the_last_one': e.is_valid(i == sp0 - 1) if False else None})
        e.check(W.sp(e) == sp0, 'runtime_error: the stack top is where it was when the error is handed to the unwinder')
        return {'case': 'error set', 'outcome': str(outcome)}
    results = e.explore(path)
    for r in results:
        for lab, ok, info in list(r.checks):
            if not ok and 'runtime_error:' in lab:
                res.fail('C04.K5:runtime_error builds the error object over the top stack slot',
                         'Vm::runtime_error pushes only the message and then calls the error class with one argument: the call protocol takes the slot below '
                         '(the last local or temporary of the raising frame) as the callee slot, overwrites it with the new instance and pops it', info, replay=F36_REPLAY)
                r.checks.remove((lab, ok, info))
    _panics(res, results, 'C04.K5.runtime_error')
    summarize_paths(res, e, results, lambda r: r.info if isinstance(r.info, dict) else None, key_prefix='C04.K5:', unwind_ok=False)


# ---------------------------------------------------------------------------------------------- K1b depth at a handler's label
F41_SRC = ('fn g() { raise Error("first"); }\nfn f() {\n  try {\n    let a = g();\n    return a;\n  } catch e: Error {\n    print("caught first");\n  }\n  let x = 5;\n  let y = 6;\n'
           '  try {\n    let z = [1, g()];\n  } catch e: Error {\n    print(e.message);\n    print(x);\n    print(y);\n  }\n  return x;\n}\nprint(f());\n')
F41_REPLAY = dict(kind='lay', source=F41_SRC, expect_stdout='caught first\nfirst\n5\n6\n5\n')


@obligation('C04.K1.handler_label_depth', 'C04', programs=('vm',), also=('C06',))
def k1_handler_label(res, tier):
    """apply_stack_effects on try skeletons whose body does not fall through (it ends in Return / Raise / Jump with k values still on
    the stack, the dead code behind it already removed): a catch label is entered only by unwinding, with the depth its PushHandler
    recorded (Fiber::stack_unwind, C04.K2), so a second PushHandler behind that label must record exactly that depth plus what the
    catch body pushed since"""
    P = get_program('vm')
    f = P.lookup('compiler::peephole::apply_stack_effects')
    INS = 'byte_code::SymbolicByteCode'
    ed = P.enum_def(INS)
    lab_sd = 'byte_code::Label'
    res.bounds = {'values live at the exit of the try body': '0..3', 'exit': 'Return, Raise, Jump', 'values pushed in the catch body before the next try': '0..2'}
    res.assumptions = ['instruction effects equal the VM behaviour (C06.K1)', 'the unwinder enters a handler with the recorded depth (C04.K2)']
    e = Engine(P, loop_bound=40, timeout_s=120)
    _fun_builder_models(e, P)

    def ins(name, *ops):
        vi = ed.vindex[name]
        if not ops:
            return EnumV(INS, vi, None, None, ed)
        return EnumV(INS, vi, {name: {i: Cell(o) for i, o in enumerate(ops)}}, None, ed)

    def label(n):
        return Struct(lab_sd, {0: Cell(bv(n, 32))}, None)

    def path(e):
        kv = z3.BitVec('live_values', 64)
        e.add_constraint(z3.ULE(kv, 3))
        k = e.concretize(kv, [0, 1, 2, 3])
        jv = z3.BitVec('catch_pushes', 64)
        e.add_constraint(z3.ULE(jv, 2))
        j = e.concretize(jv, [0, 1, 2])
        xv = z3.BitVec('exit_kind', 64)
        e.add_constraint(z3.ULE(xv, 2))
        x = e.concretize(xv, [0, 1, 2])
        prog = [ins('PushHandler', Struct('()', {0: Cell(bv(0, 16)), 1: Cell(label(0))}, None))]
        prog += [ins('Nil')] * (k + 1)                       # k live locals / temporaries and the value that is returned / raised
        if x == 0:
            prog += [ins('PopHandler'), ins('Return')]
        elif x == 1:
            prog += [ins('Raise')]
        else:
            prog += [ins('Drop'), ins('PopHandler'), ins('Jump', label(2))]      # e.g. break / continue out of the try with k values live
        prog += [ins('Label', label(0))]                     # catch entry: only reachable by unwinding
        two = e.fork_bool(z3.Bool('second_catch_clause'))
        if two:
            # a first clause that does not match: class operand, CheckHandler jumps to the next clause (dropping the operand on both edges)
            prog += [ins('Nil'), ins('CheckHandler', label(3)), ins('FinishUnwind'), ins('PopHandler'), ins('GetError'), ins('Drop'), ins('Jump', label(2)), ins('Label', label(3))]
        prog += [ins('Nil')] * j                             # what the catch body has pushed so far
        prog += [ins('PushHandler', Struct('()', {0: Cell(bv(0, 16)), 1: Cell(label(1))}, None)), ins('PopHandler'), ins('Label', label(1)), ins('Label', label(2))]
        prog = [e.copy_value(p) for p in prog]
        seq = ConcSeq(INS, [Cell(p) for p in prog])
        fbuild = e.fresh('laythe_core::object::FunBuilder', 'fun_builder')
        arity = _arity_params(e, P, fbuild)
        e.call(f, [Ref(Cell(fbuild)), SliceRef(seq, bv(0, 64), bv(len(prog), 64))])
        phs = [c.get(e) for c in seq.cells if c.get(e).tag == ed.vindex['PushHandler']]
        d = [p.field(e, 'PushHandler', 0, '(u16, byte_code::Label)').get(e).field(e, 0, 'u16').get(e) for p in phs]
        e.check(z3.ZeroExt(48, d[0]) == 1 + arity, 'the first handler records the entry depth')
        e.check(z3.ZeroExt(48, d[1]) == 1 + arity + j, 'a handler registered inside a catch block records the depth the unwinder established plus what the catch body pushed',
                {'live_at_exit_of_try_body': k, 'exit': ['Return', 'Raise', 'Jump'][x], 'catch_pushes': j, 'recorded': str(z3.simplify(d[1]))})
        return {'live': k, 'exit': ['Return', 'Raise', 'Jump'][x], 'catch_pushes': j, 'second_clause': two}
    results = e.explore(path)
    for r in results:
        for lab, ok, info in list(r.checks):
            if not ok and 'inside a catch block' in lab and not (isinstance(r.info, dict) and r.info.get('second_clause')):
                res.fail('C04.K1:depth at a catch label is inherited from the dead end of the try body',
                         'apply_stack_effects enters a catch label with the simulated depth of the instruction in front of it when no jump targets the label: after a '
                         'try body that ends in return / raise with locals live the depth is too high and later handlers record slot depths above the real stack', info, replay=F41_REPLAY)
                r.checks.remove((lab, ok, info))
    _panics(res, results, 'C04.K1.handler_label')
    summarize_paths(res, e, results, lambda r: r.info if isinstance(r.info, dict) else None, key_prefix='C04.K1b:', unwind_ok=False)


# ---------------------------------------------------------------------------------------------- K6 errors raised by a catch filter
F44_SRC = ('fn f() {\n  try {\n    raise Error("x");\n  } catch e: Later {\n    print("caught");\n  }\n}\ntry {\n  f();\n} catch e: Error {\n  print("outer");\n}\n'
           'class Later : Error {}\nprint("end");\n')
F44_REPLAY = dict(kind='lay', source=F44_SRC, expect_stdout='outer\nend\n')


@obligation('C04.K6.error_while_unwinding', 'C04', programs=('vm',), also=('C16',))
def k6_error_while_unwinding(res, tier):
    """Vm::set_error (every raise: op_raise, native errors, runtime_error) on a fiber that is unwinding, i.e. while the clauses of the
    innermost handler are being evaluated (between the jump to the catch label and FinishUnwind): the new error must not be delivered
    to that same handler again, so the handler is discarded before the search restarts; on a running fiber the handlers are untouched"""
    P = get_program('vm')
    e, W = _world(P)
    f = P.lookup('vm::Vm::set_error')
    st_def = P.enum_def('fiber::FiberState')
    res.bounds = {'handlers': 'any number < 2^16', 'fiber state': 'Running or Unwinding'}
    res.assumptions = ['the fiber is Unwinding exactly between the unwinder\'s jump to a catch label and op_finish_unwind (pause_unwind / finish_unwind: C04.K2, C18.K1)',
                       'op_check_handler discards the handler itself before raising its own errors and leaves the fiber in a state in which set_error does not discard another one']
    e.models = [m_ for m_ in e.models if 'set_error' not in m_[2]]
    e.havoc = [rx for rx in e.havoc if 'set_error' not in rx.pattern] + [re.compile(r'^(fiber::)?Fiber::set_error$')]

    def path(e):
        st = W.fresh_state(e)
        uv = _setup_handlers(e, W, st, P)
        unwinding = e.fork_bool(z3.Bool('fiber_is_unwinding'))
        st.fiber.f[W.fib_idx['state']] = Cell(EnumV('fiber::FiberState', st_def.vindex['Unwinding' if unwinding else 'Running'], None, None, st_def))
        e.add_constraint(z3.UGE(st.nh0, 1))
        sd = P.struct_def(HANDLER)
        h = uv.seq.load(e, z3.simplify(st.nh0 - 1))
        hdepth = h.field(e, sd.index_of('call_frame_depth'), 'usize').get(e)
        e.assume(z3.And(z3.UGE(hdepth, 1), z3.ULE(hdepth, st.nframes)))        # C04.K2: the handler's frame exists
        err = e.fresh('laythe_core::object::Instance', 'new_error')
        try:
            e.call(f, [Ref(st.vm_cell), err])
        except PathEnd as pe:
            if pe.kind not in ('vm_error',):
                raise
        if unwinding:
            e.check(uv.len == st.nh0 - 1, 'set_error while unwinding: the handler whose clauses are being evaluated is discarded, the new error goes to the handlers outside it')
        else:
            e.check(uv.len == st.nh0, 'set_error on a running fiber leaves the handlers alone')
        return {'unwinding': unwinding}
    results = e.explore(path)
    for r in results:
        for lab, ok, info in list(r.checks):
            if not ok and 'while unwinding' in lab:
                res.fail('C04.K6:an error raised by a catch clause is delivered to the same handler again',
                         'Vm::set_error keeps the innermost handler registered while the fiber is unwinding: an error raised while its catch clauses are evaluated '
                         '(catch e: NotYetDefined) unwinds to the same catch label again, forever', info, replay=F44_REPLAY)
                r.checks.remove((lab, ok, info))
    _panics(res, results, 'C04.K6.set_error')
    summarize_paths(res, e, results, lambda r: r.info if isinstance(r.info, dict) else None, key_prefix='C04.K6:', unwind_ok=False)
